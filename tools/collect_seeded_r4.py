#!/usr/bin/env python3
"""Copies round-4 seeded changes from /tmp/mut4 + /tmp/mutrun/r4-* into /verif/seeded/<Cxx>-r4-<k>/."""
import os, json, shutil, re, sys
exec(open('/tmp/mut4_oneliners.py').read())
NOTES4={('C13','3'):'not reported by the quick tier (expected collisions in a 1024-entry window at 16 M words: about one); reported by the thorough tier of C04 (many-distinct-words-one-instance, 160 M words: 7 violations in 85 s)', ('C04','2'):'reported by C04 many-distinct-words-one-instance (the table is unbounded, so 1 M words per instance give several collisions)', ('C11','3'):'reported by C11 many-scanners-over-distinct-contents (32 M scanners in the quick tier: about four collisions expected)'}
for p in sorted(os.listdir('/tmp/mut4')):
    if not re.match(r'C\d\d$', p): continue
    for k in '123':
        d='/tmp/mut4/%s/%s'%(p,k)
        if not os.path.exists(d+'/patch.diff'): print('missing',d); continue
        run='/tmp/mutrun/r4-%s-%s'%(p,k)
        if not os.path.exists(run+'/summary.txt'): continue
        out='/verif/seeded/%s-r4-%s'%(p,k)
        os.makedirs(out,exist_ok=True)
        shutil.copy(d+'/patch.diff',out+'/patch.diff'); shutil.copy(d+'/demo_test.go',out+'/demo_test.go')
        readme=open(d+'/README.md').read() if os.path.exists(d+'/README.md') else ''
        caught=[]
        for l in open(run+'/summary.txt'):
            m=re.match(r'(C\d\d) exit=(\d+)',l)
            if m and m.group(2)=='1': caught.append(m.group(1))
        ver=open(run+'/verify.txt').read().strip().splitlines()[-1]
        old={}
        if os.path.exists(out+'/meta.json'): old=json.load(open(out+'/meta.json'))
        meta={"id":"%s-r4-%s"%(p,k),"breaks_property":p,"round":4,
              "origin":"fresh sub-agent given only the property text, a scratch worktree and the round-2 instructions and the list of all 180 mechanisms used in rounds 1 to 3, plus further hints (to be avoided)",
              "one_line":ONE4[p][int(k)-1],
              "description_by_author":readme.strip(),
              "confirmed_by_me":{"how":"tools/verify_mutant.sh in a scratch worktree of /repo HEAD (apply, build, baseline with the tag off, demo with and without the patch)","result":ver},
              "quick_checks_that_fire_round1":caught}
        run2='/tmp/mutrun/r4b-%s-%s'%(p,k)
        if os.path.exists(run2+'/summary.txt'):
            after=[]
            for l in open(run2+'/summary.txt'):
                m=re.match(r'(C\d\d) exit=(\d+)',l)
                if m and m.group(2)=='1': after.append(m.group(1))
            meta["quick_checks_that_fire_after_strengthening"]=after
            meta["strengthening"]="batch 6 (DESIGN.md section 3, 'Round 4' notes)"
        for key in ("strengthening","note"):
            if key in old and key not in meta: meta[key]=old[key]
        if (p,k) in NOTES4: meta["note"]=NOTES4[(p,k)]
        json.dump(meta,open(out+'/meta.json','w'),indent=1,ensure_ascii=False)
print(len([d for d in os.listdir('/verif/seeded') if '-r4-' in d]))
