#!/usr/bin/env python3
"""Copies round-6 seeded changes from /tmp/mut6 + /tmp/mutrun/r6-* into /verif/seeded/<Cxx>-r6-<k>/."""
import os, json, shutil, re, sys
exec(open('/tmp/mut6_oneliners.py').read())
NOTES4={('C01','2'):'not reported by design: whether a keyword spelled with a long s (U+017F) is that keyword is not determined by the statement; the change turns one error-free reading into an error, which is also what an identifier in that place would give', ('C06','1'):'not reported by design: what IN answers when an element in front of the matching one cannot be compared with the probe is left open by the statement (the oracle marks such lists unspecified)', ('C06','3'):'not reported by design: long s again (see C10-r5-3)', ('C12','1'):'not reported: needs a hand-built token list with a token at column 0 or line 0; the tokenizers never produce one', ('C08','3'):'reported by the thorough tier (30 s of hammering across 30 second boundaries, probabilistic: the window is about 40 ns per boundary and goroutine); the quick tier (3 boundaries) sees it in roughly one run out of three; its demonstration is timing-based as well and passed once under load during my confirmation', ('C14','3'):'reported by the thorough tier only (a 16 MiB literal)'}
for p in sorted(os.listdir('/tmp/mut6')):
    if not re.match(r'C\d\d$', p): continue
    for k in '123':
        d='/tmp/mut6/%s/%s'%(p,k)
        if not os.path.exists(d+'/patch.diff'): print('missing',d); continue
        run='/tmp/mutrun/r6-%s-%s'%(p,k)
        if not os.path.exists(run+'/summary.txt'): continue
        out='/verif/seeded/%s-r6-%s'%(p,k)
        os.makedirs(out,exist_ok=True)
        shutil.copy(d+'/patch.diff',out+'/patch.diff'); shutil.copy(d+'/demo_test.go',out+'/demo_test.go')
        readme=open(d+'/README.md').read() if os.path.exists(d+'/README.md') else ''
        caught=[]
        for l in open(run+'/summary.txt'):
            m=re.match(r'(C\d\d) exit=(\d+)',l)
            if m and m.group(2)=='1': caught.append(m.group(1))
        ver=open(run+'/verify.txt').read().strip().splitlines()[-1]
        old={}
        if os.path.exists(out+'/meta.json'): old=json.load(open(out+'/meta.json'))
        meta={"id":"%s-r6-%s"%(p,k),"breaks_property":p,"round":6,
              "origin":"fresh sub-agent given only the property text, a scratch worktree and the round-2 instructions and the list of the mechanisms used for its property in rounds 1 to 5 and a list of used-up categories, plus further hints (to be avoided)",
              "one_line":ONE6[p][int(k)-1],
              "description_by_author":readme.strip(),
              "confirmed_by_me":{"how":"tools/verify_mutant.sh in a scratch worktree of /repo HEAD (apply, build, baseline with the tag off, demo with and without the patch)","result":ver},
              "quick_checks_that_fire_round1":caught}
        run2='/tmp/mutrun/r6b-%s-%s'%(p,k)
        if os.path.exists(run2+'/summary.txt'):
            after=[]
            for l in open(run2+'/summary.txt'):
                m=re.match(r'(C\d\d) exit=(\d+)',l)
                if m and m.group(2)=='1': after.append(m.group(1))
            meta["quick_checks_that_fire_after_strengthening"]=after
            meta["strengthening"]="batch 8 (DESIGN.md section 3, 'Round 6' notes)"
        for key in ("strengthening","note"):
            if key in old and key not in meta: meta[key]=old[key]
        if (p,k) in NOTES4: meta["note"]=NOTES4[(p,k)]
        json.dump(meta,open(out+'/meta.json','w'),indent=1,ensure_ascii=False)
print(len([d for d in os.listdir('/verif/seeded') if '-r6-' in d]))
