#!/bin/bash
# Re-introduces every fixed defect (reverse-applies each "fix:" commit of /repo on the
# current tree) and runs the quick checks that are expected to notice it.
# Output: one block per commit; used to fill DESIGN.md §6.
declare -A CHECKS=(
 ["empty quoted identifier"]="C03"
 ["mustache comments are accepted"]="C10"
 ["unclosed mustache section"]="C10 C03"
 ["missing ']'"]="C02"
 ["syntax error messages"]="C02 C03"
 ["NOT IN with a null"]="C01 C03"
 ["multi-token operators"]="C02 C01"
 ["Abs of Integer"]="C08"
 ["Acos returns"]="C08"
 ["function that panics"]="C08 C03"
 ["'^' is exponentiation"]="C06"
 ["indexing an array"]="C06 C03"
 ["shifts by a negative"]="C06 C03"
 ["division and modulo by zero"]="C06 C03"
 ["built from an array variant"]="C20"
 ["Variant.Equals"]="C20"
 ["String to Integer/Long"]="C07"
 ["type-safe Convert"]="C07"
 ["Long to TimeSpan"]="C07"
 ["report their own position"]="C12"
 ["not recorded as the last emitted"]="C15"
 ["forgets a skipped token"]="C15 C03"
 ["CsvQuoteState.DecodeString"]="C14 C09"
 ["ExpressionQuoteState.DecodeString"]="C14 C03"
 ["CharReferenceMap.Lookup"]="C17 C16 C13 C09"
 ["SymbolNode.Ancestry"]="C05 C16 C13 C04"
 ["CppCommentState gives back"]="C04"
 ["CCommentState gives back"]="C04"
 ["GenericNumberState gives back"]="C04"
 ["keeps line/column a function"]="C11 C12"
 ["no-op at the start"]="C11"
)
cd /repo
git log --format='%h %s' | grep ' fix:' | while read h subj; do
  for key in "${!CHECKS[@]}"; do
    if [[ "$subj" == *"$key"* ]]; then
      echo "=== revert $h $subj"
      git show "$h" > /tmp/fix-$h.patch
      /verif/tools/try_patch.sh -R /tmp/fix-$h.patch ${CHECKS[$key]}
      rm -f /tmp/fix-$h.patch
    fi
  done
done
