#!/bin/bash
# run_mutant_own_first.sh <Cxx> <k> : like run_mutant_all.sh, but the quick check of the change's own property runs
# first and the other 19 only when that one stays silent (round 8: the time left did not allow all 20 for every change).
P="$1"; K="$2"; WT=/tmp/wt/$P; D=${MUTROOT:-/tmp/mut8}/$P/$K; OUT=/tmp/mutrun/${TAG:-r8-}$P-$K
mkdir -p "$OUT"
/verif/tools/verify_mutant.sh "$D" "$WT" > "$OUT/verify.txt" 2>&1
cd "$WT" && git apply "$D/patch.diff" || exit 1
runone() { VERIF_REPO=$WT VERIF_OUT=$OUT VERIF_STALL_S=120 VERIF_WORKERS=${VERIF_WORKERS:-4} /verif/run.sh $1 quick > "$OUT/$1.log" 2>&1
  rc=$?; echo "$1 exit=$rc $(grep -A1 '^VIOLATION' "$OUT/$1.log" | grep signature= | head -1 | sed 's/^ *//' | cut -c1-200)"; return $rc; }
: > "$OUT/summary.txt"
runone $P >> "$OUT/summary.txt"
if [ $? != 1 ]; then
  for c in $(seq -w 1 20); do [ C$c = $P ] || runone C$c >> "$OUT/summary.txt"; done
fi
cd "$WT" && git checkout -q -- . && git clean -fdq
rm -rf "$OUT/.build"
echo "$P-$K done: $(tail -1 $OUT/verify.txt); caught by: $(grep 'exit=1' $OUT/summary.txt | cut -d' ' -f1 | tr '\n' ' ')"
