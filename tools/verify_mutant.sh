#!/bin/bash
# verify_mutant.sh <dir-with-patch.diff-and-demo_test.go> <scratch-worktree>
# Confirms the claims made for a seeded change, in a scratch worktree: applies cleanly, builds,
# baseline passes with it, the demonstration fails with it and passes without it.
export GOFLAGS=-mod=mod GOPROXY=off GOSUMDB=off GOTOOLCHAIN=local
D="$1"; WT="$2"
cd "$WT" || exit 2
git checkout -q -- . ; git clean -fdq
git apply "$D/patch.diff" || { echo "verify: APPLY FAILED"; exit 1; }
go build ./... || { echo "verify: BUILD FAILED"; git checkout -q -- .; exit 1; }
nonok=$(go test -vet=off -count=1 ./... 2>&1 | grep -v 'no test files' | grep -vc '^ok')
mkdir -p test/demo && cp "$D/demo_test.go" test/demo/demo_test.go
go test -vet=off -count=1 ./test/demo/ >/tmp/demo.$$.log 2>&1; with=$?
git checkout -q -- . ; git clean -fdq -e test/demo
go test -vet=off -count=1 ./test/demo/ >/tmp/demo2.$$.log 2>&1; without=$?
rm -rf test/demo /tmp/demo.$$.log /tmp/demo2.$$.log
echo "verify: baseline_nonok=$nonok demo_with_patch_exit=$with demo_clean_exit=$without"
[ "$nonok" = 0 ] && [ "$with" != 0 ] && [ "$without" = 0 ]
