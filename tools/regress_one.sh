#!/bin/bash
# regress_one.sh <seeded-id> <worktree>: apply the seeded patch in the worktree and run the checks recorded as catching it, own property first
export GOFLAGS=-mod=mod GOPROXY=off GOSUMDB=off GOTOOLCHAIN=local
ID=$1; WT=$2; D=/verif/seeded/$ID; OUT=/tmp/mutrun/reg-$ID
mkdir -p $OUT
cd $WT && git checkout -q -- . && git clean -fdq
if ! git apply $D/patch.diff 2>$OUT/apply.err; then echo "$ID APPLY-FAILED"; exit 0; fi
checks=$(python3 - <<PY
import json
m=json.load(open('$D/meta.json'))
f=m.get('quick_checks_that_fire_after_strengthening')
if f is None: f=m.get('quick_checks_that_fire_round1',[])
own=m['breaks_property']
order=([own] if own in f else [])+[c for c in f if c!=own]
if not order: order=[own]
print(' '.join(order))
PY
)
fired=""
for c in $checks; do
  VERIF_REPO=$WT VERIF_OUT=$OUT VERIF_STALL_S=120 VERIF_WORKERS=${VERIF_WORKERS:-3} /verif/run.sh $c quick > $OUT/$c.log 2>&1
  if [ $? = 1 ]; then fired=$c; break; fi
done
cd $WT && git checkout -q -- . && git clean -fdq; rm -rf $OUT/.build
echo "$ID expected=[$checks] fired=${fired:-NONE}"
