#!/usr/bin/env python3
"""Regenerates /verif/MANIFEST.json from the table below and validates it."""
import json, subprocess, sys, os
ROOT = os.path.dirname(os.path.dirname(os.path.abspath(__file__)))

def repo_commits(prefix):
    out = subprocess.run(["git", "-C", "/repo", "log", "--format=%h %s"], capture_output=True, text=True).stdout
    return [l.split()[0] for l in out.splitlines() if l.split(" ", 1)[1].startswith(prefix)]

CHECKS = {
 "C04": dict(
   technique="runtime monitor: concatenation oracle over exhaustive small-scope and seeded random tokenizer runs, with the H1 loop-progress hook",
   text="Every string up to length 3 (quick) / 5 (thorough) over a 24-character alphabet containing every state-selecting class is tokenized by the real generic, expression, CSV and mustache tokenizers (plus two configured variants) with all options off, and a monitor checks that the token values concatenate to the input, that no token before the end is empty and that the stream ends with exactly one end-of-input marker; seeded random long inputs, every BMP code point in three positions, and single tokens of every class with lengths around 256, 1024, 4096 and 65535 extend the reach. Bounded exploration of real executions, exhaustive inside the stated scope.",
   note="Trusts Go string equality only; no reference tokenizer is involved. Inputs outside the enumerated scope are reached only by the random generator.",
   ref="DESIGN.md §3 C04"),
 "C11": dict(
   technique="runtime monitor: online reference cursor model compared after every scanner operation, plus the H2 invariant hook inside StringScanner during real tokenizer workloads",
   text="The real StringScanner is driven with every operation sequence of depth 5 (quick) / 6 (thorough) after every number of initial reads on every content up to length 4 / 6 over {x, LF, CR}, and a position-only cursor model (independent line/column forward scan) is compared after each single operation; seeded random long contents and sequences follow; in addition hook H2 checks the same invariant inside the scanner for every Read/Unread/Reset performed by the real tokenizers. Exhaustive inside the stated scope, exploration beyond.",
   note="The model (harness/model/lc.go, checks/c11.go) is written from the property statement; PeekColumn at the end-of-input slot is a documented don't-care.",
   ref="DESIGN.md §3 C11"),
 "C14": dict(
   technique="runtime monitor: identity and panic oracle over exhaustive small-scope and random strings on the three real quote states, stream boundary observed on a real scanner",
   text="EncodeString/DecodeString and NextToken of the generic, expression and CSV quote states are executed on every string up to length 5 (quick) / 7 (thorough) over an alphabet with the quote, the other quote, 1-, 2-, 3- and 4-byte characters, space and LF, for four quote characters (one above U+00FF); the monitor checks decode(encode(s)) = s, that decode of arbitrary text never panics, and that encode(s)+tail is read back as exactly one token leaving the tail unread. Exhaustive inside the scope, seeded random strings up to 100 runes beyond.",
   note="Invalid UTF-8 is out of scope; the stream clause is applied to the expression and CSV states only, as the statement says.",
   ref="DESIGN.md §3 C14"),
 "C16": dict(
   technique="runtime monitor: longest-prefix reference oracle over exhaustively enumerated symbol tables, registration orders, inputs and repeated reads on the real SymbolRootNode",
   text="Real symbol tables are built for every set of up to 3 (quick) / 4 (thorough) of the 39 strings of length 1..3 over {<,=,>} (and over {a, ш, €} for children above U+00FF) in every or seeded registration orders with distinct token types; every input of length 1..4 is read on each table twice (second pass in reverse order, so every read happens after other reads) and the monitor compares text, type and number of consumed characters with a direct longest-prefix search. Random larger tables, tables built incrementally (inputs read between registrations, the symbol about to be registered last before and first after), and the built-in tokenizers' tables (before/after adding symbols) complete it.",
   note="Symbols containing U+0000, U+FFFF or astral characters (outside the character maps' domain) and duplicate registrations with different types are don't-care. Token type 0 is asserted since round 4 (defect 31, repaired).",
   ref="DESIGN.md §3 C16"),
 "C17": dict(
   technique="runtime monitor: newest-first interval list model with pointer identity, compared after every operation of exhaustively enumerated registration histories",
   text="Every history of length <= 3 over 88 operations (28 endpoint ranges x 3 references, default interval x 3, clear) is applied to a real CharReferenceMap and probed at 21 characters after every operation against a list model; 40 k (quick) / 5 M (thorough) random histories up to length 30 follow; a third sub-check observes the tokenizer-level consequence (configured state returned, disabled word range stops a word, non-Latin letters reach the word state) on real tokenizers.",
   note="Ranges that end beyond U+FFFE are clipped by the implementation: a probe beyond U+FFFE is judged only when no range of the history reaches it (it must find nothing).",
   ref="DESIGN.md §3 C17"),
 "C12": dict(
   technique="runtime monitor: token positions compared with an independent line/column model at offsets derived from the option-free stream, across all 128 option sets",
   text="The four built-in tokenizers (and two configured variants) are run on hand-written patterns, every string up to length 2 (quick) / 3 (thorough) over a 20-character alphabet, seeded random fragment concatenations and generated lexeme sequences, under all 128 option sets; each option run is aligned to the option-free run by the C15 relation and every token must carry the line/column that the independent forward-scan model gives for the offset of its first character, the end-of-input token one column past the last character. A further sub-check compares the position quoted in syntax-error messages of malformed expressions with the offending token's coordinates.",
   note="Offsets come from the option-free stream, whose losslessness is C04's business; streams that fail the C15 relation are not judged here.",
   ref="DESIGN.md §3 C12"),
 "C13": dict(
   technique="runtime monitor: generated lexeme sequences (known classes) compared with the real tokenizers' output",
   text="Sequences of 1..8 (quick) / 1..40 (thorough) lexemes are generated from the lexical grammars of the generic and the expression tokenizer (identifiers incl. non-Latin, keywords in any case, all number notations, quoted strings with doubled quotes/newlines/non-ASCII, comments, whitespace, single and multi-character symbols) with a blank inserted wherever neighbours could merge; the real tokenizer must return exactly those (type, text) pairs. All ordered pairs and triples of the multi-character symbols and all keywords in four spellings are enumerated exhaustively.",
   note="The adjacency table deciding where a separator is needed is conservative (may insert unnecessary blanks, never omits a needed one).",
   ref="DESIGN.md §3 C13"),
 "C15": dict(
   technique="runtime monitor: relational oracle aligning every option run with the option-free run of the same real tokenizer (all 128 option sets), with the H1 loop-progress hook",
   text="For every input the real tokenizer is run option-free and under each of the 128 option sets; the monitor checks that the option run is exactly the option-free stream with Unknown/Comment/end-of-input tokens removed iff their skip option is on, whitespace runs reduced to one token iff skip-whitespaces is on, and only the permitted rewrites (single blank, Number type, reference-decoded strings) applied; hook H1 turns a non-advancing main loop into an observation. Inputs: 41 hand-written patterns with skipped kinds between others, every string up to length 2/3 over a 20-character alphabet, random fragment concatenations, generated lexeme sequences.",
   note="Which whitespace token of a run survives skip-whitespaces is not prescribed by the statement and not asserted. The two mustache defects it found (Unknown token inside a tag; a decoded \"}}\" literal ending a tag) are repaired.",
   ref="DESIGN.md §3 C15"),
 "C06": dict(
   technique="runtime monitor: host-arithmetic reference table compared with every operator result over all ordered pairs of a boundary value pool, both managers",
   text="All 21 operators of both operation managers are executed on all ordered pairs of a 99-value boundary pool (every variant type; extremes, zero, negatives, NaN/Inf, empty and non-ASCII strings, zones, nested arrays) and on seeded random pairs; the monitor compares type and value with a host-arithmetic table written per (operator, type) in the harness, requires errors for division by zero, negative shifts, out-of-range indexes and unsupported types, checks Null propagation, operand immutability and the mutual consistency of the six comparisons.",
   note="The second operand is converted with the manager's own Convert (checked by C07); Go's math/time are trusted. Don't-care zones: shift counts >= 64, equality of Object/Array values, equality with Null (only consistency), NOT of Null, IN over arrays with incomparable elements.",
   ref="DESIGN.md §3 C06"),
 "C07": dict(
   technique="runtime monitor: structural result-type check, round-trip identity and safe/unsafe differential over pool x 11 targets x 2 managers",
   text="Convert is executed for every value of the boundary pool and for seeded random values against all 11 target types under both managers; the monitor checks exactly-one-of result/error, the requested result type (unchanged value for Object/own type), the type-safe whitelist and its agreement with the type-unsafe manager, operand immutability, and every defined lossless round-trip chain (integer/long/double/float, boolean, time span in ms, date-time in Unix seconds, strings).",
   note="Target type Null, text formats and lossy narrowing values are don't-care.",
   ref="DESIGN.md §3 C07"),
 "C08": dict(
   technique="runtime monitor: reference table of the 37 default functions compared with direct calls and calls through real expressions, both managers",
   text="Every default function is looked up in three spellings and called with every argument list of length 0-1 over the boundary pool, length 2 over a 30-value sub-pool and seeded lists of length 3-8, directly and through a parsed expression with the arguments bound to variables, under both managers; a reference table (arity; folds with the manager's comparisons; selection; bit-exact math.*; type-preserving Abs; time construction; clock functions by ordering around the call; Rnd range) decides value, type and error-ness; (nil,nil) is never accepted.",
   note="Reference bodies use Go's math/time/strings and the manager's Convert/More/Less/Add (C06/C07). Don't-care: Choose with selector 0, Empty of empty string/array, Trunc beyond the long range, Abs of the minimum integer, unit of the 7th Date argument (ns or ms), unit of Ticks.",
   ref="DESIGN.md §3 C08"),
 "C20": dict(
   technique="runtime monitor: variant value model driven in lock-step with the real variants over exhaustive and random operation sequences, all live variants observed after every step",
   text="Every sequence of 4 (quick) / 5 (thorough) operations over 34 concrete operations on live variants and a caller-side list (construct, SetAsArray, VariantFromArray, Assign, Clone, NewVariant(variant), SetByIndex at 0/len/len+2, SetLength, Clear, SetAsInteger, caller-side list mutation), and random sequences up to 40 over 62 operations, are applied to real variants and to a value model; after every step all live variants are read back and Equals is evaluated on all pairs (total, symmetric, equal to model equality, clone equals original). A host-value sub-check covers all 15 Go host types at boundary values.",
   note="Aliasing created by Assign of an array, in-place mutation of element variants, shrinking SetLength and Equals of date-times are don't-care.",
   ref="DESIGN.md §3 C20"),
 "C01": dict(
   technique="runtime monitor: differential against direct evaluation of generated syntax trees with the same variant operations; compiled program compared with the tree's post-order",
   text="Syntax trees are generated from the grammar (typed trees whose values discriminate shapes, and uniform shape trees filling the complete 22x22x2 table of parent/child/side operator pairs), printed four ways (minimal, full parentheses, random parentheses/spacing/comments/keyword case, tight), set on a real calculator and evaluated under variable assignments; the monitor compares the compiled program with the tree's post-order and the result (type, value or error code) with a direct evaluation of the tree that applies the manager's variant operations in written operand order. Every token string up to length 5 (quick) / 7 (thorough) over a 14-token alphabet accepted by an independent tabular parser is checked the same way.",
   note="Operator arithmetic itself is C06's business and function bodies C08's (both are called, not re-implemented). Don't-care: the value of LIKE nodes, a sign and an index on the same primary, clock/random functions.",
   ref="DESIGN.md §3 C01"),
 "C02": dict(
   technique="runtime monitor: accept/reject and compiled-program oracle from an independent tabular (span-memoised) reference parser over exhaustively enumerated token sequences",
   text="Every token sequence of length 1..4 (quick) / 1..5 (thorough) over a 23-symbol vocabulary and of length up to 5 / 7 over the 12 symbols that carry brackets and the multi-token operators is rendered and given to the real parser; a tabular reference parser for the grammar (not recursive descent) decides whether it is a sentence and what its tree is; sentences must be accepted and compiled to the tree's post-order, everything else must be rejected with an error that carries a code, never a panic. Token-level mutations (insert, delete, replace, swap, duplicate) of generated valid expressions extend the reach, and a token-API sub-check hands the same expressions over as token lists (ParseTokens twice on one slice, SetOriginalTokens) and compares with ParseString.",
   note="Only a trailing comma before ')' is left open (documented don't-care). Lexing is not in play (single blanks); that is C13.",
   ref="DESIGN.md §3 C02"),
 "C18": dict(
   technique="runtime monitor: generator-known identifier positions and an ordered-list model compared with the real parser, calculator and collections",
   text="Expression trees that reuse a small identifier pool in different letter case, as function and as variable, quoted and inside strings are printed four ways; VariableNames() must be the identifiers in variable position in first-occurrence order and automatic variables must leave exactly one entry per name while keeping pre-existing entries and values; resolution (first added wins, case-insensitive) and missing-name errors are enumerated; every sequence of 5 (quick) / 6 (thorough) collection operations plus random longer ones is compared with an ordered-list model after every step, for variable and function collections. A template sub-check does the same for mustache variable names.",
   note="Out-of-range indexes for Get/Remove are preconditions; identifiers outside ASCII/Latin-1/Cyrillic are not generated.",
   ref="DESIGN.md §3 C18"),
 "C03": dict(
   technique="runtime monitor: panic/termination/result-xor-error oracle over exhaustive small-scope, grammar-aware hostile and mutated inputs on every entry point, with the H1 loop-progress hook and a supervising process for fatal errors and hangs",
   text="Every string up to length 3 (quick) / 4 (thorough) over a 26-character alphabet of significant characters, seeded hostile expressions and templates from the grammar generators with character-level mutations, fragment concatenations and a committed corpus are fed to SetExpression/Evaluate (null, boundary-pool and given variables, both managers), SetTemplate/EvaluateWithVariables, six tokenizer configurations under several option sets and the quote states; the monitor turns panics into observations, hook H1 detects a non-advancing tokenizer loop by logical steps, every evaluating call must yield exactly one of result/error, and a supervisor process re-runs in-flight cases after a fatal error or stall.",
   note="No reference value is needed, so any generator is sound. Documented precondition panics of configuration APIs (invalid separators, empty variable names passed by the caller) are out of scope.",
   ref="DESIGN.md §3 C03"),
 "C05": dict(
   technique="runtime monitor: fresh-instance differential over all ordered pairs and random sequences of inputs on reused instances; has-next interleaving patterns",
   text="Twelve components (four tokenizers option-free and with option sets, expression parser and calculator, mustache parser and template) are fed every ordered pair of their input pools (77 tokenizer inputs with every multi-character symbol, token class, unterminated literal, push-back position; 48 expressions; 30 templates) and seeded longer sequences with aborted iterations on one reused instance; after every input the observable product must equal that of a freshly constructed instance. All 39 patterns of 0-2 HasNextToken calls before NextToken are compared with a plain loop; further steps re-use the same reset scanner object, hand inputs over through the token API, and evaluate one compiled expression with alternating function collections.",
   note="The reference is the same code in a fresh instance, which is what the statement defines. Default variable collections accumulate by design and are not compared as such; evaluation uses an explicit collection, and since round 4 also the default collection after the caller cleared or pruned it.",
   ref="DESIGN.md §3 C05"),
 "C09": dict(
   technique="runtime monitor: round-trip oracle (harness writer -> real CsvTokenizer -> regrouping) over exhaustive small tables and random tables x configurations x line endings",
   text="Tables are written by the harness' own writer (raw or quote-encoded fields, configured separators, one of four line endings), tokenized by a real CsvTokenizer configured accordingly with string decoding on, and regrouped; the rows and fields must come back exactly and every line ending must be one end-of-line token. Exhaustive: all 1x1 tables with fields up to length 4/5 over a 9-character alphabet, all 1x2/2x1 tables of fields up to length 2, all 2x2 tables of fields up to length 1, for two configurations; random tables up to 6x6 for six configurations including separators and quotes above U+00FF; a reconfiguration sub-check re-uses one tokenizer (and the caller's slices) for several configurations in a row.",
   note="Characters at or above U+FFFF, mixed line-end styles and the table whose text is empty are don't-care.",
   ref="DESIGN.md §3 C09"),
 "C10": dict(
   technique="runtime monitor: reference renderer over generated template trees, malformed-by-construction mutants, and a three-valued reference classifier over exhaustive lexeme strings",
   text="Template trees (text of all Unicode, variables, escaped variables, comments, nested sections in every spelling, blanks inside tags, names in ASCII/Latin-1/Cyrillic and random case) are printed, set on a real MustacheTemplate and rendered under maps with present/absent/empty values; the result must equal the reference rendering of the tree. Well-formed printings are made malformed in exactly one of five ways and must be rejected. Every sequence of up to 5 (quick) / 7 (thorough) template lexemes is classified well-formed / malformed / not determined by an independent classifier and checked accordingly.",
   note="Don't-care zones are listed in DESIGN.md §3 C10. Comment bodies with quote characters (a defect of the pinned tree, repaired) are generated on purpose.",
   ref="DESIGN.md §3 C10"),
 "C19": dict(
   technique="Go race detector over concurrent evaluations of shared parsed instances with the H3 yield hook, plus snapshot and sequential-result monitors",
   text="Compiled expressions and templates are evaluated sequentially under several variable sets in permuted orders (results must repeat; deep snapshots of program, constants, variable values and function table must not change) and then by 2, 4 or 16 goroutines sharing the instance, each with its own variables (instances that have never evaluated anything; once while hook H3 yields at seeded steps inside the evaluations, once with the hooks removed so that the monitor's own synchronisation cannot hide a race); every concurrent result must equal the sequential one, the race detector log must stay empty, and the run reports how many distinct interleavings of evaluation steps it observed (fewer than 50/100 makes it inconclusive). A third workload runs 16 goroutines each owning its own tokenizers, calculator and template.",
   note="The race detector and H3 see only the schedules that occurred; the claim is 'no race and no deviation in the executions observed'.",
   ref="DESIGN.md §3 C19"),
}

NOT_YET = {}
ALL = ["C%02d" % i for i in range(1, 21)]

def main():
    checks = []
    for pid in ALL:
        if pid not in CHECKS:
            continue
        c = CHECKS[pid]
        checks.append({
            "property_id": pid,
            "quick_cmd": "./run.sh %s quick" % pid,
            "thorough_cmd": "./run.sh %s thorough" % pid,
            "evidence_file": "evidence/%s.json" % pid,
            "replay_cmd_template": "./run.sh replay {path}",
            "engine": "vcheck-race" if pid == "C19" else "vcheck",
            "level_claimed": {"category": "exploration", "text": c["text"] + " The scopes named here are those of the first version; eight rounds of seeded changes extended every check (further sub-checks, larger pools, more entry points) - the sub-checks with their rules, case counts and observed events as they are now are in the evidence file, the history in the 'Round n' notes of DESIGN.md section 3.", "design_ref": c["ref"]},
            "level_note": c["note"],
            "technique": c["technique"],
        })
    na = [{"property_id": p, "reason": NOT_YET.get(p, "check not built yet in this revision of /verif (runtime monitor planned, see DESIGN.md §3)")} for p in ALL if p not in CHECKS]
    m = {
        "version": 1,
        "setup_cmd": "./run.sh build",
        "hooks": {
            "guard": "verif",
            "enable": "go build -tags verif (run.sh builds the harness module, which replaces the library module with /repo, with -tags verif)",
            "baseline_off_cmd": "cd /repo && GOFLAGS=-mod=mod GOPROXY=off GOSUMDB=off GOTOOLCHAIN=local go test -json -vet=off -count=1 -timeout 25m ./...",
            "source_commits": repo_commits("verif hooks"),
            "add_only": True,
        },
        "engines": [
            {"name": "vcheck", "path": "harness/cmd/vcheck", "serves_properties": [p for p in ALL if p in CHECKS and p != "C19"],
             "kind_free_text": "Go monitors and reference models driving the real library in-process (supervised child process, crash slots, replay files)"},
            {"name": "vcheck-race", "path": "harness/cmd/vcheck (built with -race)", "serves_properties": [p for p in ["C19"] if p in CHECKS],
             "kind_free_text": "the same binary under the Go race detector with the H3 yield hook"},
        ],
        "checks": checks,
        "not_applicable": na,
        "notes": "All checks are runtime monitors over executions of the real code (see DESIGN.md). Exit codes: 0 held, 1 violation (VIOLATION line + replay file), 3 inconclusive. Fixed defects (no open known finding): known_findings.json.",
    }
    if not na:
        del m["not_applicable"]
    with open(os.path.join(ROOT, "MANIFEST.json"), "w") as f:
        json.dump(m, f, indent=1)
        f.write("\n")
    try:
        import jsonschema
        jsonschema.validate(m, json.load(open("/root/.vp/MANIFEST.schema.json")))
        print("MANIFEST.json valid,", len(checks), "checks,", len(na), "not_applicable")
    except ImportError:
        print("jsonschema missing; not validated")

if __name__ == "__main__":
    main()
