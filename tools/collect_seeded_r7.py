#!/usr/bin/env python3
"""Copies round-7 seeded changes from /tmp/mut7 + /tmp/mutrun/r7-* into /verif/seeded/<Cxx>-r7-<k>/."""
import os, json, shutil, re, sys
exec(open('/tmp/mut7_oneliners.py').read())
NOTES4={('C05','2'):'not reported by design: names of a rejected expression may stay in the default collection (the statement lets the default collection keep earlier entries; see C18-r2-3)', ('C05','3'):'reported by C18 after batch 9 (CreateVariables on the caller\'s own collection); round-7 changes were re-run only against the checks that were extended', ('C13','1'):'reported by C13 after batch 9 (an exponent on every shape of mantissa)', ('C06','2'):'not reported by design: shift counts of 64 and more are a documented don\'t-care of C06', ('C15','1'):'not reported by design: needs a number state of the caller\'s own that emits HexDecimal tokens; no built-in state does', ('C15','3'):'not reported by design: see C14-r5-3', ('C19','2'):'the demonstration needs the race detector (go test -race), as its README says; without it it passes, which is what the plain confirmation run shows'}
for p in sorted(os.listdir('/tmp/mut7')):
    if not re.match(r'C\d\d$', p): continue
    for k in '123':
        d='/tmp/mut7/%s/%s'%(p,k)
        if not os.path.exists(d+'/patch.diff'): print('missing',d); continue
        run='/tmp/mutrun/r7-%s-%s'%(p,k)
        if not os.path.exists(run+'/summary.txt'): continue
        out='/verif/seeded/%s-r7-%s'%(p,k)
        os.makedirs(out,exist_ok=True)
        shutil.copy(d+'/patch.diff',out+'/patch.diff'); shutil.copy(d+'/demo_test.go',out+'/demo_test.go')
        readme=open(d+'/README.md').read() if os.path.exists(d+'/README.md') else ''
        caught=[]
        for l in open(run+'/summary.txt'):
            m=re.match(r'(C\d\d) exit=(\d+)',l)
            if m and m.group(2)=='1': caught.append(m.group(1))
        ver=open(run+'/verify.txt').read().strip().splitlines()[-1]
        old={}
        if os.path.exists(out+'/meta.json'): old=json.load(open(out+'/meta.json'))
        meta={"id":"%s-r7-%s"%(p,k),"breaks_property":p,"round":7,
              "origin":"fresh sub-agent given only the property text, a scratch worktree and the round-2 instructions and the list of the mechanisms used for its property in rounds 1 to 5 and a list of used-up categories, plus further hints (to be avoided)",
              "one_line":ONE7[p][int(k)-1],
              "description_by_author":readme.strip(),
              "confirmed_by_me":{"how":"tools/verify_mutant.sh in a scratch worktree of /repo HEAD (apply, build, baseline with the tag off, demo with and without the patch)","result":ver},
              "quick_checks_that_fire_round1":caught}
        if (p,k) in (('C05','3'),('C13','1')):
            meta["quick_checks_that_fire_after_strengthening"]=[{'C05':'C18','C13':'C13'}[p]]
            meta["strengthening"]="batch 9"
        run2='/tmp/mutrun/r7b-%s-%s'%(p,k)
        if os.path.exists(run2+'/summary.txt'):
            after=[]
            for l in open(run2+'/summary.txt'):
                m=re.match(r'(C\d\d) exit=(\d+)',l)
                if m and m.group(2)=='1': after.append(m.group(1))
            meta["quick_checks_that_fire_after_strengthening"]=after
            meta["strengthening"]="batch 9"
        for key in ("strengthening","note"):
            if key in old and key not in meta: meta[key]=old[key]
        if (p,k) in NOTES4: meta["note"]=NOTES4[(p,k)]
        json.dump(meta,open(out+'/meta.json','w'),indent=1,ensure_ascii=False)
print(len([d for d in os.listdir('/verif/seeded') if '-r7-' in d]))
