#!/usr/bin/env python3
"""Assembles DESIGN.md §5-§8 tables from seeded/*/meta.json (the prose parts live in DESIGN.md itself between markers)."""
import json, os, re, sys
ROOT='/verif'
def seeded_table():
    rows=[]
    for d in sorted(os.listdir(ROOT+'/seeded')):
        f=ROOT+'/seeded/%s/meta.json'%d
        if not os.path.exists(f): continue
        m=json.load(open(f))
        r1=m.get('quick_checks_that_fire_round1',[])
        r2=m.get('quick_checks_that_fire_after_strengthening')
        final=r2 if r2 is not None else r1
        own=m['breaks_property']
        note=''
        if r2 is not None and own not in r1: note=' (own check extended)'
        if not final: note=' **missed**'
        if not final and 'thorough tier' in m.get('note',''): note=' quick tier: none; thorough tier: C04'
        rows.append('| %s | %s | %s%s |' % (d, m.get('one_line','').replace('|','\\|'), ' '.join(final) if final else '—', note))
    return '\n'.join(['| id | change (what it needs to manifest) | quick checks that fire |','|----|----|----|']+rows)
if __name__=='__main__':
    s=open(ROOT+'/DESIGN.md').read()
    a=s.index('<!-- SEEDED-TABLE-BEGIN -->')+len('<!-- SEEDED-TABLE-BEGIN -->')
    b=s.index('<!-- SEEDED-TABLE-END -->')
    s=s[:a]+'\n'+seeded_table()+'\n'+s[b:]
    open(ROOT+'/DESIGN.md','w').write(s)
    print('table updated')
