#!/usr/bin/env python3
"""Copies round-5 seeded changes from /tmp/mut5 + /tmp/mutrun/r5-* into /verif/seeded/<Cxx>-r5-<k>/."""
import os, json, shutil, re, sys
exec(open('/tmp/mut5_oneliners.py').read())
NOTES4={('C02','1'):'not reported by design: a sign and an index on one primary is a documented don\'t-care of the grammar model (either order of the two operators is accepted as the post-order)', ('C10','3'):'not reported by design: names containing letters with more than one lower-case form (long s, final sigma) are not determined by the statement; the unchanged library compares lower-cased names, EqualFold is an equally defensible reading of case-insensitive', ('C12','2'):'reported by C02 only (its side effect: a IS NOT IN b is accepted); which of IS, NOT or the following token a malformed IS NOT sequence is blamed on is not determined by the statement', ('C14','3'):'not reported by design: it needs a quote state bound to a character with SetCharacterState while another one is the tokenizer\'s configured quote state; in that configuration the unchanged library itself decodes with the configured state\'s rules, so there is no reference behaviour to compare with'}
for p in sorted(os.listdir('/tmp/mut5')):
    if not re.match(r'C\d\d$', p): continue
    for k in '123':
        d='/tmp/mut5/%s/%s'%(p,k)
        if not os.path.exists(d+'/patch.diff'): print('missing',d); continue
        run='/tmp/mutrun/r5-%s-%s'%(p,k)
        if not os.path.exists(run+'/summary.txt'): continue
        out='/verif/seeded/%s-r5-%s'%(p,k)
        os.makedirs(out,exist_ok=True)
        shutil.copy(d+'/patch.diff',out+'/patch.diff'); shutil.copy(d+'/demo_test.go',out+'/demo_test.go')
        readme=open(d+'/README.md').read() if os.path.exists(d+'/README.md') else ''
        caught=[]
        for l in open(run+'/summary.txt'):
            m=re.match(r'(C\d\d) exit=(\d+)',l)
            if m and m.group(2)=='1': caught.append(m.group(1))
        ver=open(run+'/verify.txt').read().strip().splitlines()[-1]
        old={}
        if os.path.exists(out+'/meta.json'): old=json.load(open(out+'/meta.json'))
        meta={"id":"%s-r5-%s"%(p,k),"breaks_property":p,"round":5,
              "origin":"fresh sub-agent given only the property text, a scratch worktree and the round-2 instructions and the list of all 240 mechanisms used in rounds 1 to 4, plus further hints (to be avoided)",
              "one_line":ONE5[p][int(k)-1],
              "description_by_author":readme.strip(),
              "confirmed_by_me":{"how":"tools/verify_mutant.sh in a scratch worktree of /repo HEAD (apply, build, baseline with the tag off, demo with and without the patch)","result":ver},
              "quick_checks_that_fire_round1":caught}
        run2='/tmp/mutrun/r5b-%s-%s'%(p,k)
        if os.path.exists(run2+'/summary.txt'):
            after=[]
            for l in open(run2+'/summary.txt'):
                m=re.match(r'(C\d\d) exit=(\d+)',l)
                if m and m.group(2)=='1': after.append(m.group(1))
            meta["quick_checks_that_fire_after_strengthening"]=after
            meta["strengthening"]="batch 7 (DESIGN.md section 3, 'Round 5' notes)"
        for key in ("strengthening","note"):
            if key in old and key not in meta: meta[key]=old[key]
        if (p,k) in NOTES4: meta["note"]=NOTES4[(p,k)]
        json.dump(meta,open(out+'/meta.json','w'),indent=1,ensure_ascii=False)
print(len([d for d in os.listdir('/verif/seeded') if '-r5-' in d]))
