#!/bin/bash
# try_patch.sh [-R] <patch-file> <Cxx> [<Cxx> ...]
# Applies a patch to /repo, checks that it builds and that the baseline still passes,
# runs the quick checks named, prints one line per check, and restores /repo.
export GOFLAGS=-mod=mod GOPROXY=off GOSUMDB=off GOTOOLCHAIN=local
REV=""
if [ "$1" = "-R" ]; then REV="-R"; shift; fi
PATCH="$1"; shift
cd /repo || exit 2
if [ -n "$(git status --porcelain)" ]; then echo "REPO NOT CLEAN"; exit 2; fi
if ! git apply $REV "$PATCH" 2>/tmp/apply.err; then echo "APPLY FAILED: $(head -2 /tmp/apply.err)"; exit 2; fi
restore() { git -C /repo checkout -q -- . ; git -C /repo clean -fdq; }
trap restore EXIT
if ! go build ./... 2>/tmp/build.err; then echo "BUILD FAILED"; exit 2; fi
fails=$(go test -vet=off -count=1 ./... 2>&1 | grep -v 'no test files' | grep -vc '^ok')
echo "baseline-nonok-packages=$fails"
for c in "$@"; do
  out=$(cd /verif && VERIF_STALL_S=${VERIF_STALL_S:-120} ./run.sh "$c" quick 2>&1)
  code=$?
  nv=$(echo "$out" | grep -c '^VIOLATION')
  first=$(echo "$out" | grep -A1 '^VIOLATION' | grep 'signature=' | head -1 | sed 's/^ *//' | cut -c1-220)
  echo "$c exit=$code violations_lines=$nv $first"
done
