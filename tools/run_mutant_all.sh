#!/bin/bash
# run_mutant_all.sh <Cxx> <k> : apply /tmp/mut/<Cxx>/<k>/patch.diff in the scratch worktree /tmp/wt/<Cxx>,
# run every quick check against that worktree (outputs under /tmp/mutrun/<Cxx>-<k>), restore the worktree.
P="$1"; K="$2"; WT=/tmp/wt/$P; D=${MUTROOT:-/tmp/mut}/$P/$K; OUT=/tmp/mutrun/${TAG:-}$P-$K
mkdir -p "$OUT"
/verif/tools/verify_mutant.sh "$D" "$WT" > "$OUT/verify.txt" 2>&1
cd "$WT" && git apply "$D/patch.diff" || exit 1
for c in $(seq -w 1 20); do
  VERIF_REPO=$WT VERIF_OUT=$OUT VERIF_STALL_S=120 VERIF_WORKERS=${VERIF_WORKERS:-4} /verif/run.sh C$c quick > "$OUT/C$c.log" 2>&1
  echo "C$c exit=$? $(grep -A1 '^VIOLATION' "$OUT/C$c.log" | grep signature= | head -1 | sed 's/^ *//' | cut -c1-200)"
done > "$OUT/summary.txt"
cd "$WT" && git checkout -q -- . && git clean -fdq
rm -rf "$OUT/.build"
echo "$P-$K done: $(tail -1 $OUT/verify.txt); caught by: $(grep 'exit=1' $OUT/summary.txt | cut -d' ' -f1 | tr '\n' ' ')"
