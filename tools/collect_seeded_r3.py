#!/usr/bin/env python3
"""Copies round-2 seeded changes from /tmp/mut3 + /tmp/mutrun/r3-* into /verif/seeded/<Cxx>-r3-<k>/."""
import os, json, shutil, re, sys
exec(open('/tmp/mut3_oneliners.py').read())
for p in sorted(os.listdir('/tmp/mut3')):
    if not re.match(r'C\d\d$', p): continue
    for k in '123':
        d='/tmp/mut3/%s/%s'%(p,k)
        if not os.path.exists(d+'/patch.diff'): print('missing',d); continue
        run='/tmp/mutrun/r3-%s-%s'%(p,k)
        if not os.path.exists(run+'/summary.txt'): continue
        out='/verif/seeded/%s-r3-%s'%(p,k)
        os.makedirs(out,exist_ok=True)
        shutil.copy(d+'/patch.diff',out+'/patch.diff'); shutil.copy(d+'/demo_test.go',out+'/demo_test.go')
        readme=open(d+'/README.md').read() if os.path.exists(d+'/README.md') else ''
        caught=[]
        for l in open(run+'/summary.txt'):
            m=re.match(r'(C\d\d) exit=(\d+)',l)
            if m and m.group(2)=='1': caught.append(m.group(1))
        ver=open(run+'/verify.txt').read().strip().splitlines()[-1]
        old={}
        if os.path.exists(out+'/meta.json'): old=json.load(open(out+'/meta.json'))
        meta={"id":"%s-r3-%s"%(p,k),"breaks_property":p,"round":3,
              "origin":"fresh sub-agent given only the property text, a scratch worktree and the round-2 instructions and the list of all 120 mechanisms used in rounds 1 and 2 (to be avoided)",
              "one_line":ONE3[p][int(k)-1],
              "description_by_author":readme.strip(),
              "confirmed_by_me":{"how":"tools/verify_mutant.sh in a scratch worktree of /repo HEAD (apply, build, baseline with the tag off, demo with and without the patch)","result":ver},
              "quick_checks_that_fire_round1":caught}
        for key in ("quick_checks_that_fire_after_strengthening","strengthening","note"):
            if key in old: meta[key]=old[key]
        json.dump(meta,open(out+'/meta.json','w'),indent=1,ensure_ascii=False)
print(len([d for d in os.listdir('/verif/seeded') if '-r3-' in d]))
