#!/bin/bash
# (needs scratch worktrees: for i in 01..10: git -C /repo worktree add --detach /tmp/wt/C$i HEAD; remove them afterwards)
# ten lanes, one worktree each
ls /verif/seeded | sort > /tmp/regress_ids.txt
for lane in 0 1 2 3 4 5 6 7 8 9; do
  ( WT=/tmp/wt/C$(printf %02d $((lane+1))); git -C $WT checkout -q -- .; git -C $WT checkout -q --detach $(git -C /repo rev-parse HEAD)
    awk -v l=$lane 'NR%10==l' /tmp/regress_ids.txt | while read id; do /verif/tools/regress_one.sh $id $WT; done ) > /tmp/mutrun/regress-lane$lane.txt 2>&1 &
done
wait
