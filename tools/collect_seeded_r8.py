#!/usr/bin/env python3
"""Copies round-8 seeded changes from /tmp/mut8 + /tmp/mutrun/r8-* into /verif/seeded/<Cxx>-r8-<k>/.
One-liners and notes come from /tmp/mut8/oneliners.json ({"C01-1": {"one_line":..., "note":...}, ...})."""
import os, json, shutil, re
extra=json.load(open('/tmp/mut8/oneliners.json')) if os.path.exists('/tmp/mut8/oneliners.json') else {}
n=0
for p in sorted(os.listdir('/tmp/mut8')):
    if not re.match(r'C\d\d$', p): continue
    for k in '12':
        d='/tmp/mut8/%s/%s'%(p,k)
        if not os.path.exists(d+'/patch.diff'): print('missing',d); continue
        run='/tmp/mutrun/r8-%s-%s'%(p,k)
        if not os.path.exists(run+'/summary.txt'): print('not run',d); continue
        ver=open(run+'/verify.txt').read().strip().splitlines()[-1]
        if not re.search(r'baseline_nonok=0 demo_with_patch_exit=[1-9]\d* demo_clean_exit=0',ver): print('not confirmed, dropped',d,ver); continue
        out='/verif/seeded/%s-r8-%s'%(p,k)
        os.makedirs(out,exist_ok=True)
        shutil.copy(d+'/patch.diff',out+'/patch.diff'); shutil.copy(d+'/demo_test.go',out+'/demo_test.go')
        readme=open(d+'/README.md').read() if os.path.exists(d+'/README.md') else ''
        def fired(path):
            r=[]
            for l in open(path):
                m=re.match(r'(C\d\d) exit=(\d+)',l)
                if m and m.group(2)=='1': r.append(m.group(1))
            return r
        caught=fired(run+'/summary.txt')
        ran=[l.split()[0] for l in open(run+'/summary.txt') if re.match(r'C\d\d exit=',l)]
        e=extra.get('%s-%s'%(p,k),{})
        meta={"id":"%s-r8-%s"%(p,k),"breaks_property":p,"round":8,
              "origin":"fresh sub-agent given only the property text, a scratch worktree, the list of mechanisms used for its property in rounds 1 to 7, a list of used-up categories and hints",
              "one_line":e.get('one_line') or (readme.strip().splitlines()[0].lstrip('# ') if readme.strip() else ''),
              "description_by_author":readme.strip(),
              "confirmed_by_me":{"how":"tools/verify_mutant.sh in a scratch worktree of /repo HEAD (apply, build, baseline with the tag off, demo with and without the patch)","result":ver},
              "quick_checks_run_round1":ran,
              "quick_checks_that_fire_round1":caught}
        run2='/tmp/mutrun/r8b-%s-%s'%(p,k)
        if os.path.exists(run2+'/summary.txt'):
            meta["quick_checks_that_fire_after_strengthening"]=fired(run2+'/summary.txt')
            meta["strengthening"]="batch 10"
        if e.get('note'): meta["note"]=e['note']
        json.dump(meta,open(out+'/meta.json','w'),indent=1,ensure_ascii=False); n+=1
print(n)
