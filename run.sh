#!/bin/bash
# run.sh <Cxx> quick|thorough          run the check for one property
# run.sh replay <file>                 re-execute a recorded case
# run.sh build                         build the harness (setup)
# Rebuilds the harness against /repo's current working tree (hooks on, -tags verif) on every call.
set -u
ROOT="$(cd "$(dirname "$0")" && pwd)"
export GOFLAGS=-mod=mod GOPROXY=off GOSUMDB=off GOTOOLCHAIN=local
export VERIF_ROOT="$ROOT"
BIN="$ROOT/.build/bin"
mkdir -p "$BIN" "$ROOT/.build/logs" "$ROOT/evidence" "$ROOT/replay"

build() { # $1 = output name, rest = extra go build flags
  local out="$1"; shift
  local tmp="$BIN/.$out.$$"
  ( cd "$ROOT/harness" && cp -f /repo/go.sum go.sum 2>/dev/null; go build -tags verif "$@" -o "$tmp" ./cmd/vcheck ) || { echo "BUILD FAILED ($out)"; rm -f "$tmp"; return 1; }
  mv -f "$tmp" "$BIN/$out"
}

cmd="${1:-}"
case "$cmd" in
  build)
    build vcheck || exit 3
    build vcheck-race -race || exit 3
    echo "harness built"; exit 0 ;;
  replay)
    build vcheck-replay || exit 3
    exec "$BIN/vcheck-replay" replay "$2" ;;
  C[0-9][0-9])
    tier="${2:-${VERIF_TIER:-quick}}"
    if [ "$cmd" = C19 ]; then
      build "vcheck-$cmd" -race || exit 3
      export GORACE="halt_on_error=0 log_path=$ROOT/.build/logs/race-$cmd-$tier"
      rm -f "$ROOT/.build/logs/race-$cmd-$tier".*
    else
      build "vcheck-$cmd" || exit 3
    fi
    exec "$BIN/vcheck-$cmd" run "$cmd" "$tier" ;;
  *)
    echo "usage: run.sh <Cxx> quick|thorough | replay <file> | build"; exit 2 ;;
esac
