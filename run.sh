#!/bin/bash
# run.sh <Cxx> quick|thorough          run the check for one property
# run.sh replay <file>                 re-execute a recorded case
# run.sh build                         build the harness (setup)
# Rebuilds the harness against /repo's current working tree (hooks on, -tags verif) on every call.
set -u
ROOT="$(cd "$(dirname "$0")" && pwd)"
export GOFLAGS=-mod=mod GOPROXY=off GOSUMDB=off GOTOOLCHAIN=local
# VERIF_REPO (default /repo) and VERIF_OUT (default this directory) exist only for trying the checks
# on scratch worktrees in parallel (seeded changes); registered commands never set them.
REPO="${VERIF_REPO:-/repo}"
OUT="${VERIF_OUT:-$ROOT}"
export VERIF_ROOT="$OUT"
BIN="$OUT/.build/bin"
mkdir -p "$BIN" "$OUT/.build/logs" "$OUT/evidence" "$OUT/replay"
MODFLAG=""
if [ "$REPO" != /repo ]; then
  sed "s#=> /repo#=> $REPO#" "$ROOT/harness/go.mod" > "$BIN/alt.mod"; cp -f "$ROOT/harness/go.sum" "$BIN/alt.sum"
  MODFLAG="-modfile=$BIN/alt.mod"
fi
if [ "$OUT" != "$ROOT" ]; then
  ln -sfn "$ROOT/corpus" "$OUT/corpus"; cp -f "$ROOT/known_findings.json" "$OUT/known_findings.json"
fi

build() { # $1 = output name, rest = extra go build flags
  local out="$1"; shift
  local tmp="$BIN/.$out.$$"
  ( cd "$ROOT/harness" && { [ -n "$MODFLAG" ] || cp -f /repo/go.sum go.sum 2>/dev/null; }; go build $MODFLAG -tags verif "$@" -o "$tmp" ./cmd/vcheck ) || { echo "BUILD FAILED ($out)"; rm -f "$tmp"; return 1; }
  mv -f "$tmp" "$BIN/$out"
}

cmd="${1:-}"
case "$cmd" in
  build)
    build vcheck || exit 3
    build vcheck-race -race || exit 3
    echo "harness built"; exit 0 ;;
  replay)
    build vcheck-replay || exit 3
    exec "$BIN/vcheck-replay" replay "$2" ;;
  C[0-9][0-9])
    tier="${2:-${VERIF_TIER:-quick}}"
    if [ "$cmd" = C19 ]; then
      build "vcheck-$cmd" -race || exit 3
      export GORACE="halt_on_error=0 log_path=$OUT/.build/logs/race-$cmd-$tier"
      rm -f "$OUT/.build/logs/race-$cmd-$tier".*
    else
      build "vcheck-$cmd" || exit 3
    fi
    exec "$BIN/vcheck-$cmd" run "$cmd" "$tier" ;;
  *)
    echo "usage: run.sh <Cxx> quick|thorough | replay <file> | build"; exit 2 ;;
esac
