// vcheck: one binary, one registered check per property.
//
//	vcheck run <Cxx> <quick|thorough>        supervisor + worker child
//	vcheck worker <Cxx> <tier> [sub]         run in this process
//	vcheck replay <file>                     re-execute a recorded case
//	vcheck list
package main

import (
	"fmt"
	"os"
	"path/filepath"
	"strconv"

	_ "verifharness/checks"
	"verifharness/mon"
)

func seed() uint64 {
	if v := os.Getenv("VERIF_SEED"); v != "" {
		if n, err := strconv.ParseUint(v, 10, 64); err == nil {
			return n
		}
		if n, err := strconv.ParseInt(v, 10, 64); err == nil {
			return uint64(n)
		}
	}
	return 1
}

func root() string {
	if v := os.Getenv("VERIF_ROOT"); v != "" {
		return v
	}
	exe, _ := os.Executable()
	return filepath.Dir(filepath.Dir(filepath.Dir(exe)))
}

func main() {
	if len(os.Args) < 2 {
		fmt.Fprintln(os.Stderr, "usage: vcheck run|worker|replay|list ...")
		os.Exit(2)
	}
	switch os.Args[1] {
	case "list":
		for _, p := range mon.Properties() {
			fmt.Println(p)
		}
	case "run", "worker":
		if len(os.Args) < 4 {
			fmt.Fprintln(os.Stderr, "usage: vcheck run <Cxx> <quick|thorough>")
			os.Exit(2)
		}
		cfg := &mon.Config{Property: os.Args[2], Tier: os.Args[3], Seed: seed(), Root: root()}
		if os.Args[1] == "run" && os.Getenv("VERIF_NOSUP") == "" {
			self, _ := os.Executable()
			args := append([]string{"worker"}, os.Args[2:]...)
			os.Exit(mon.Supervise(cfg, self, args))
		}
		only := ""
		if len(os.Args) > 4 {
			only = os.Args[4]
		}
		os.Exit(mon.RunWorker(cfg, only))
	case "replay":
		os.Exit(mon.RunReplay(root(), os.Args[2]))
	case "replay-raw":
		s, _ := strconv.ParseUint(os.Args[4], 10, 64)
		cfg := &mon.Config{Property: os.Args[2], Tier: os.Args[3], Seed: s, Root: root()}
		os.Exit(mon.ReplayRaw(cfg, os.Args[5], os.Args[6]))
	default:
		fmt.Fprintln(os.Stderr, "unknown command")
		os.Exit(2)
	}
}
