package checks

import (
	"fmt"
	"strconv"
	"strings"

	"github.com/pip-services3-gox/pip-services3-expressions-gox/calculator"
	"github.com/pip-services3-gox/pip-services3-expressions-gox/calculator/functions"
	"github.com/pip-services3-gox/pip-services3-expressions-gox/calculator/parsers"
	ctok "github.com/pip-services3-gox/pip-services3-expressions-gox/calculator/tokenizers"
	rio "github.com/pip-services3-gox/pip-services3-expressions-gox/io"
	"github.com/pip-services3-gox/pip-services3-expressions-gox/mustache"
	mparsers "github.com/pip-services3-gox/pip-services3-expressions-gox/mustache/parsers"
	"github.com/pip-services3-gox/pip-services3-expressions-gox/tokenizers"
	"github.com/pip-services3-gox/pip-services3-expressions-gox/variants"

	"verifharness/mon"
)

// C05 — reused instances give history-independent results.

func init() { mon.Register("C05", buildC05) }

var c05TokPool = []string{
	"<=", "<>", "<<", ">=", ">>", "!=", "<", ">", "=", "!", "a<=b", "a<>b", "a<<b", "a>=b", "a>>b", "a!=b", "< = > <= >= <>",
	"{{", "{{{", "}}", "}}}", "{", "}", "x{{a}}y", "{{#a}}in{{/a}}", "{{{a}}}", "{{a", "{{! c }}", "plain text", "a{{", "}}b",
	"\r\n", "\n\r", "\r", "\n", "a\r\nb", "a,b\r\n1,2", "\"q\"\"r\",x", "\"open", ",", ",,",
	"a like b", "l\u0130ke", "li\u212ae", "LIKE", "abc", "x_1", "AND", "not", "12", "3.5", "1e5", "2E-3", ".5", "5.", "-7", "-", ".", "/", "1e", "e",
	"'a'", "\"b\"", "'it''s'", "'open", "/* c */", "/*open", "# c", "// c", "a /*c*/ b", "", " ", "  \t", "é", "ш", "😀", "￿", "a😀b", "(a + 1) * 2",
}

var c05ExprPool = []string{
	"a like b", "l\u0130ke + 1", "li\u212ae * 2", "'abc' like 'a'", "1 + '2'", "2 > 1.5", "'7' = 7", "a + b", "'a + b'", "'a'", "a", "\"a\" + 1", "a <= b", "a <> b", "a << 2", "a >= b", "a >> 1", "a != b", "a < b", "(a", "a +", "'open", "/*c*/ 1", "Min(a,b)", "arr[1]", "a IS NULL", "a IS NOT NULL", "NOT a", "",
	"1 2", "@", "a AND", "a >= b OR c != d", "a NOT IN arr", "a IN arr", "-a", "a[", "a[1", "f(", "f()", "f(a,", "1.5e3 * 2", "'it''s' + s", "\"my var\" + 1", "a ^ 2", "x y", ")", "TRUE XOR p",
	"a <= b AND b <> c AND c << 1 > 0", "  a  ", "a\n+\nb", "/* only */", "a /* c */ + /* d */ b", "b - a - 1", "a / 0", "s[0]", "Sum(1,2,3) = 6", "😀", "a + 😀",
}

var c05TmplPool = []string{
	"x{{a}}y", "{{#a}}in{{/a}}", "{{#a}}open", "{{a", "{{{a}}}", "{{a}}}", "{{{a}}", "", "plain", "{{! c }}", "{{^b}}no{{/b}}", "{{#if a}}yes{{/if}}", "{{#unless a}}no{{/unless}}", "}}", "{{", "a{{b",
	"{{/a}}", "{{#a}}{{/b}}", "{{a}}{{B}}{{a}}", "{{ a }} {{ b }}", "Hello, {{Name}}!", "{{#a}}{{#b}}x{{/b}}{{/a}}", "{{#a}}{{b}}", "{{a b}}", "{{}}", "{{😀}}", "t{{a}}😀", "{{a}}\n{{b}}\n", "{{! 'q }}", "'{{a}}'",
	"{{#unless a", "{{#if a", "{{#unless a}}x", "{{^a}}no{{/a}}", "{{#a}}yes{{/a}}", "{{^if a}}x", "{{#unless", "{{/unless}}", "{{#B}}b{{/B}}{{^B}}nb{{/B}}",
}

func obsTokens(t tokenizers.ITokenizer, input string) string {
	return toksString(tokenizeAll(t, input))
}

// c05Observe runs one input on a (possibly used) instance and renders what is observable.
type c05Instance struct {
	kind string
	tok  tokenizers.ITokenizer
	ep   *parsers.ExpressionParser
	ec   *calculator.ExpressionCalculator
	mp   *mparsers.MustacheParser
	mt   *mustache.MustacheTemplate
}

func newC05Instance(kind string) *c05Instance {
	in := &c05Instance{kind: kind}
	switch {
	case strings.HasPrefix(kind, "tok:"):
		parts := strings.Split(kind, ":")
		in.tok = newTokenizer(parts[1])
		m, _ := strconv.Atoi(parts[2])
		setOptions(in.tok, m)
	case kind == "expression-parser":
		in.ep = parsers.NewExpressionParser()
	case kind == "expression-calculator":
		in.ec = calculator.NewExpressionCalculator()
	case kind == "mustache-parser":
		in.mp = mparsers.NewMustacheParser()
	case kind == "mustache-template":
		in.mt = mustache.NewMustacheTemplate()
	}
	return in
}

var c05Env = &env{names: []string{"a", "b", "c", "d", "s", "p", "arr", "my var"}, vals: []Val{vInt(7), vInt(3), vInt(2), vInt(5), vStr("xy"), vBool(true), vArr(vInt(7), vInt(9)), vInt(4)}}
var c05Map = map[string]string{"a": "A", "B": "", "name": "World"}

func (in *c05Instance) observe(input string, abort int) (out string) {
	p := mon.Try(func() {
		switch {
		case in.tok != nil && abort == 5:
			// the same scanner object, reset and handed over a second time
			sc := rio.NewStringScanner(input)
			pass := func() string {
				in.tok.SetReader(sc)
				var b strings.Builder
				for n := 0; n < len(input)+5; n++ {
					t := in.tok.NextToken()
					if t == nil {
						break
					}
					b.WriteString(tok{t.Type(), t.Value(), t.Line(), t.Column()}.String() + " ")
				}
				return b.String()
			}
			first := pass()
			sc.Reset()
			second := pass()
			out = first
			if second != first {
				out = "SECOND PASS OVER THE SAME RESET SCANNER DIFFERS: " + first + " | " + second
			}
		case in.tok != nil && abort >= 7 && abort <= 9:
			// iteration abandoned after 1..3 plain NextToken calls, nothing parked, nothing looked at beyond
			in.tok.SetReader(rio.NewStringScanner(input))
			var b strings.Builder
			for k := 0; k < abort-6; k++ {
				t := in.tok.NextToken()
				if t == nil {
					break
				}
				b.WriteString(tok{t.Type(), t.Value(), t.Line(), t.Column()}.String() + " ")
			}
			out = b.String()
		case in.tok != nil && (abort == 10 || abort == 11):
			// the whole-input entry points
			var ts []*tokenizers.Token
			if abort == 10 {
				ts = in.tok.TokenizeBuffer(input)
			} else {
				ts = in.tok.TokenizeStream(rio.NewStringScanner(input))
			}
			var all []tok
			for _, t := range ts {
				all = append(all, tok{t.Type(), t.Value(), t.Line(), t.Column()})
			}
			out = toksString(all)
		case in.tok != nil:
			if abort > 0 {
				// aborted iteration: read only a few tokens, with has-next queries in between
				in.tok.SetReader(rio.NewStringScanner(input))
				var b strings.Builder
				for k := 0; k < abort; k++ {
					if !in.tok.HasNextToken() {
						break
					}
					t := in.tok.NextToken()
					b.WriteString(tok{t.Type(), t.Value(), t.Line(), t.Column()}.String() + " ")
				}
				// leave the iteration with a token parked by a has-next query
				fmt.Fprintf(&b, "more=%v", in.tok.HasNextToken())
				out = b.String()
				return
			}
			out = obsTokens(in.tok, input)
		case in.ep != nil:
			if abort == 10 {
				in.ep.Clear()
			}
			err := in.ep.ParseString(input)
			out = fmt.Sprintf("err=%s program=%v vars=%q", errCode(err), gotProgram(in.ep.ResultTokens()), in.ep.VariableNames())
			if err != nil {
				out = "err=" + errCode(err) + ": " + err.Error()
			}
		case in.ec != nil && abort == 6:
			// the operations manager is switched between evaluations of one compiled expression
			err := in.ec.SetExpression(input)
			if err != nil {
				out = "err=" + errCode(err) + ": " + err.Error()
				return
			}
			var b strings.Builder
			for _, m := range []string{"unsafe", "safe", "unsafe", "safe"} {
				in.ec.SetVariantOperations(manager(m))
				r, e2 := in.ec.EvaluateUsingVariables(c05Env.collection())
				fresh := calculator.NewExpressionCalculator()
				fresh.SetVariantOperations(manager(m))
				fresh.SetExpression(input)
				fr, fe := fresh.EvaluateUsingVariables(c05Env.collection())
				fmt.Fprintf(&b, "%s: %v %v | ", m, snap(r), errCode(e2))
				if snap(r).String() != snap(fr).String() || errCode(e2) != errCode(fe) {
					fmt.Fprintf(&b, "DIFFERS FROM A FRESH CALCULATOR UNDER THE SAME MANAGER (%v %v) | ", snap(fr), errCode(fe))
				}
			}
			in.ec.SetVariantOperations(manager("unsafe"))
			out = b.String()
		case in.ec != nil && abort >= 7 && abort <= 9:
			// the caller edits the default variables between expressions (7: clears them, 8: removes the known names one by
			// one, 9: leaves them) and evaluates with the default variables after giving the known names their values
			switch abort {
			case 7:
				in.ec.DefaultVariables().Clear()
			case 8:
				for _, n := range c05Env.names {
					in.ec.DefaultVariables().RemoveByName(n)
				}
			}
			err := in.ec.SetExpression(input)
			if err != nil {
				out = "err=" + errCode(err) + ": " + err.Error()
				return
			}
			for i, n := range c05Env.names {
				if v := in.ec.DefaultVariables().FindByName(n); v != nil {
					v.SetValue(c05Env.vals[i].Variant())
				}
			}
			r, e2 := in.ec.Evaluate()
			out = fmt.Sprintf("default variables: program=%v value=%v evalerr=%v", gotProgram(in.ec.ResultTokens()), snap(r), e2)
		case in.ec != nil && abort == 4:
			// the token API: the same input handed over as a token list
			tk := ctok.NewExpressionTokenizer()
			setOptions(tk, optSkipComments|optSkipEof|optDecodeStrings)
			in.ec.SetOriginalTokens(tk.TokenizeBuffer(strings.Trim(input, " \t\r\n")))
			var r *variants.Variant
			var err error
			r, err = in.ec.EvaluateUsingVariables(c05Env.collection())
			out = fmt.Sprintf("tokens: program=%v value=%v evalerr=%v", gotProgram(in.ec.ResultTokens()), snap(r), err)
		case in.ec != nil:
			if abort == 10 {
				in.ec.Clear()
			}
			err := in.ec.SetExpression(input)
			if err != nil {
				out = "err=" + errCode(err) + ": " + err.Error()
				return
			}
			var r *variants.Variant
			r, err = in.ec.EvaluateUsingVariables(c05Env.collection())
			out = fmt.Sprintf("program=%v value=%v evalerr=%v", gotProgram(in.ec.ResultTokens()), snap(r), err)
		case in.mp != nil:
			if abort == 10 {
				in.mp.Clear()
			}
			err := in.mp.ParseString(input)
			if err != nil {
				out = "err=" + errCode(err) + ": " + err.Error()
				return
			}
			out = fmt.Sprintf("tokens=%s vars=%q", mtoks(in.mp.ResultTokens()), in.mp.VariableNames())
		case in.mt != nil:
			if abort == 10 {
				in.mt.Clear()
			}
			err := in.mt.SetTemplate(input)
			if err != nil {
				out = "err=" + errCode(err) + ": " + err.Error()
				return
			}
			s, e2 := in.mt.EvaluateWithVariables(c05Map)
			out = fmt.Sprintf("tokens=%s render=%q err=%v", mtoks(in.mt.ResultTokens()), s, e2)
		}
	})
	if p != nil {
		return "PANIC " + p.Sig()
	}
	return out
}

func mtoks(ts []*mparsers.MustacheToken) string {
	var b strings.Builder
	for _, t := range ts {
		fmt.Fprintf(&b, "(%d %q@%d:%d", t.Type(), t.Value(), t.Line(), t.Column())
		if len(t.Tokens()) > 0 {
			b.WriteString(" " + mtoks(t.Tokens()))
		}
		b.WriteString(")")
	}
	return b.String()
}

// payload: kind \x00 aborts (digits, one per input) \x00 inputs joined by \x01
func c05Exec(c *mon.Case) {
	parts := strings.SplitN(c.Payload, "\x00", 3)
	kind := parts[0]
	inputs := strings.Split(parts[2], "\x01")
	used := newC05Instance(kind)
	var prevList []*tokenizers.Token
	prevSnap := ""
	for i, in := range inputs {
		if used.tok != nil && prevList != nil && toksOf(prevList) != prevSnap {
			c.Failf("tok instance: a token list handed out earlier was rewritten by later use of the tokenizer (tokenizer)", "component=%s history=%q\nlist as returned: %s\nlist now:         %s", kind, inputs[:i], prevSnap, toksOf(prevList))
			return
		}
		abort := 0
		if i < len(parts[1]) {
			abort = int(parts[1][i] - '0')
		}
		got := used.observe(in, abort)
		want := newC05Instance(kind).observe(in, abort)
		if strings.Contains(want, "DIFFERS FROM A FRESH CALCULATOR") || strings.Contains(got, "DIFFERS FROM A FRESH CALCULATOR") {
			c.Failf("expression-calculator instance: result depends on the operations manager used earlier", "input=%q\n%s", in, got)
			return
		}
		if strings.HasPrefix(want, "SECOND PASS") {
			c.Failf("tok instance: a second pass over the same reset scanner differs from the first", "component=%s input=%q\n%s", kind, in, want)
			return
		}
		if got != want {
			cls := ""
			if strings.HasPrefix(kind, "tok:") {
				cls = " (tokenizer)"
			}
			c.Failf(strings.SplitN(kind, ":", 3)[0]+" instance: result depends on what the instance processed earlier"+cls,
				"component=%s history=%q input #%d=%q\nfresh instance: %s\nused instance:  %s", kind, inputs[:i], i, in, want, got)
			return
		}
	}
	if used.tok != nil && len(inputs) > 0 {
		// one more use through TokenizeBuffer, whose result the caller keeps across the next call
		prevList = used.tok.TokenizeBuffer(inputs[0])
		prevSnap = toksOf(prevList)
		used.tok.TokenizeBuffer(inputs[len(inputs)-1] + " x")
		if toksOf(prevList) != prevSnap {
			c.Failf("tok instance: a token list handed out earlier was rewritten by later use of the tokenizer (tokenizer)", "component=%s inputs=%q\nlist as returned: %s\nlist now:         %s", kind, inputs, prevSnap, toksOf(prevList))
			return
		}
	}
	if len(inputs) > 1 {
		c.NonTrivial()
	}
}

func c05HasNextExec(c *mon.Case) {
	parts := strings.SplitN(c.Payload, "\x00", 4)
	kind, pattern, input := parts[0], parts[2], parts[3]
	mask, _ := strconv.Atoi(parts[1])
	run := func(pattern string) (out string) {
		p := mon.Try(func() {
			t := newTokenizer(kind)
			setOptions(t, mask)
			t.SetReader(rio.NewStringScanner(input))
			var ts []tok
			for k := 0; ; k++ {
				n := 0
				if len(pattern) > 0 {
					n = int(pattern[k%len(pattern)] - '0')
				}
				more := true
				for q := 0; q < n; q++ {
					more = t.HasNextToken()
				}
				x := t.NextToken()
				if x == nil {
					if !more && n > 0 {
						// consistent
					}
					break
				}
				if n > 0 && !more {
					ts = append(ts, tok{-1, "HasNextToken said false but a token followed", 0, 0})
				}
				ts = append(ts, tok{x.Type(), x.Value(), x.Line(), x.Column()})
				if len(ts) > len(input)+5 {
					panic(mon.NoProgress{})
				}
			}
			out = toksString(ts)
		})
		if p != nil {
			return "PANIC " + p.Sig()
		}
		return out
	}
	want := run("")
	got := run(pattern)
	if got != want {
		c.Failf("token stream depends on how often the presence of a next token was queried", "tokenizer=%s options=%s input=%q pattern=%s\nwithout queries: %s\nwith queries:    %s", kind, optNames(mask), input, pattern, want, got)
		return
	}
	c.NonTrivial()
}

func buildC05(cfg *mon.Config) []*mon.Sub {
	installLoopMonitor()
	rule := "oracle: every input of the sequence, fed to one reused instance, must produce exactly the observable product (tokens with types, values and positions; error code and message; compiled program and variable names; value under a fixed variable collection; rendering under a fixed map) that a freshly constructed instance produces for that input alone"
	type comp struct {
		kind string
		pool []string
	}
	comps := []comp{
		{"tok:generic:0", c05TokPool}, {"tok:expression:0", c05TokPool}, {"tok:csv:0", c05TokPool}, {"tok:mustache:0", c05TokPool},
		{"tok:expression:78", c05TokPool}, {"tok:mustache:14", c05TokPool}, {"tok:generic:127", c05TokPool}, {"tok:csv:64", c05TokPool},
		{"expression-parser", c05ExprPool}, {"expression-calculator", c05ExprPool}, {"mustache-parser", c05TmplPool}, {"mustache-template", c05TmplPool},
	}
	var subs []*mon.Sub
	pairs := &mon.Sub{
		Name: "all-ordered-pairs", Rule: fmt.Sprintf("all ordered pairs of the input pools (tokenizers: %d inputs containing every registered multi-character symbol alone and in context, every token class, unterminated literals and comments, push-back positions, the empty input; expressions: %d; templates: %d) on 12 components (4 tokenizers option-free, 4 with option sets, expression parser and calculator, mustache parser and template), for the option-free tokenizers also with the first input abandoned after 1, 2 or 3 plain NextToken calls and the second read through TokenizeBuffer / TokenizeStream, for the calculator also through the token API and with the default variables cleared or pruned by the caller in between, for parsers, calculators and templates also with Clear() called between the two inputs; ", len(c05TokPool), len(c05ExprPool), len(c05TmplPool)) + rule,
		Exhaustive: true, DistinctByGen: true, Floor: 1000,
		Gen: func(emit func(string)) {
			for _, cp := range comps {
				for _, a := range cp.pool {
					for _, b := range cp.pool {
						emit(cp.kind + "\x00\x00" + a + "\x01" + b)
						if strings.HasPrefix(cp.kind, "tok:") && strings.HasSuffix(cp.kind, ":0") {
							// the first input abandoned after 1..3 tokens, the second one through the whole-input entry points
							emit(cp.kind + "\x007:\x00" + a + "\x01" + b)
							emit(cp.kind + "\x008;\x00" + a + "\x01" + b)
							emit(cp.kind + "\x009:\x00" + a + "\x01" + b)
						}
						if !strings.HasPrefix(cp.kind, "tok:") {
							// Clear() called between the two inputs
							emit(cp.kind + "\x000:\x00" + a + "\x01" + b)
						}
						if cp.kind == "expression-calculator" {
							// default variables cleared or pruned by the caller between the two expressions
							emit(cp.kind + "\x0097\x00" + a + "\x01" + b)
							emit(cp.kind + "\x0098\x00" + a + "\x01" + b)
						}
						if cp.kind == "expression-calculator" {
							// the same pairs with one side handed over through the token API
							emit(cp.kind + "\x0040\x00" + a + "\x01" + b)
							emit(cp.kind + "\x0004\x00" + a + "\x01" + b)
							if a == b {
								emit(cp.kind + "\x006\x00" + a)
							}
						}
					}
				}
			}
		},
		Exec: c05Exec,
	}
	subs = append(subs, pairs)
	subs = append(subs, &mon.Sub{
		Name: "random-sequences", Rule: "seeded sequences of 3..12 inputs from the same pools on the same 12 components, tokenizer iterations aborted after 0..3 tokens (with has-next queries, or plain) at random steps, inputs also through TokenizeBuffer / TokenizeStream, calculators also evaluated with their default variables after the caller cleared or pruned them; " + rule + "; distinct by hash",
		Floor: 1000,
		Gen: func(emit func(string)) {
			r := cfg.Rng("c05-seq")
			for i := 0; i < cfg.N(15000, 1200000); i++ {
				cp := mon.Pick(r, comps)
				n := 3 + r.Intn(10)
				if !cfg.Quick() && i%3 == 0 {
					n = 3 // triples sampled densely
				}
				in := make([]string, n)
				ab := make([]byte, n)
				for k := range in {
					in[k] = mon.Pick(r, cp.pool)
					ab[k] = '0'
					if strings.HasPrefix(cp.kind, "tok:") && r.Chance(1, 4) {
						ab[k] = byte('1' + r.Intn(3))
					} else if strings.HasPrefix(cp.kind, "tok:") && r.Chance(1, 4) {
						ab[k] = byte('7' + r.Intn(5)) // 7..9 plain aborts, ':' TokenizeBuffer, ';' TokenizeStream
					} else if cp.kind == "expression-calculator" && r.Chance(1, 4) {
						ab[k] = byte('7' + r.Intn(3))
					} else if !strings.HasPrefix(cp.kind, "tok:") && r.Chance(1, 6) {
						ab[k] = ':' // Clear() first
					} else if strings.HasPrefix(cp.kind, "tok:") && r.Chance(1, 8) {
						ab[k] = '5'
					} else if cp.kind == "expression-calculator" && r.Chance(1, 3) {
						ab[k] = '4'
					} else if cp.kind == "expression-calculator" && r.Chance(1, 4) {
						ab[k] = '6'
					}
				}
				emit(cp.kind + "\x00" + string(ab) + "\x00" + strings.Join(in, "\x01"))
			}
		},
		Exec: c05Exec,
	})
	subs = append(subs, &mon.Sub{
		Name: "has-next-interleavings", Rule: "for every pool input x 4 tokenizers x {no options, one seeded option set}: every pattern of 0, 1 or 2 HasNextToken calls before each NextToken of period <= 3 (39 patterns) must give the token stream of a plain NextToken loop, and HasNextToken must never deny a token that follows",
		Exhaustive: true, DistinctByGen: true, Floor: 1000,
		Gen: func(emit func(string)) {
			var pats []string
			enumStrings([]string{"0", "1", "2"}, 3, func(p []string) {
				if len(p) > 0 {
					pats = append(pats, joinParts(p))
				}
			})
			r := cfg.Rng("c05-hasnext")
			for _, k := range builtinTokenizers {
				for _, in := range c05TokPool {
					for _, m := range []int{0, r.Intn(128)} {
						for _, p := range pats {
							emit(k + "\x00" + strconv.Itoa(m) + "\x00" + p + "\x00" + in)
						}
					}
				}
			}
		},
		Exec: c05HasNextExec,
	})
	subs = append(subs, &mon.Sub{
		Name: "function-collections-interleaved", Rule: "one compiled expression calling f and g is evaluated with function collections A, B, A, with the default functions (f missing: an error naming it), after adding f to the default functions, and after removing it again; every result must be the value computed from the collection actually passed (a per-instance cache keyed by name would show); enumerated over 9 expressions (three of which fail under the explicit collections: division by zero, an unknown function, a selector out of range) x 2 orders",
		Exhaustive: true, DistinctByGen: true, Floor: 5,
		Gen: func(emit func(string)) {
			for _, e := range []string{"f(2) + g(3)", "f(g(2))", "g(f(1), f(2))", "f(1) * 10 + f(2)", "Sum(f(1), g(1), 1)", "If(f(0) > g(0), f(5), g(5))", "f(1) / (g(0) * 0)", "g(3) + nosuch(f(1))", "Choose(f(-9), 1, 2) + g(1)"} {
				emit("AB\x00" + e)
				emit("BA\x00" + e)
			}
		},
		Exec: func(c *mon.Case) {
			c.NonTrivial()
			parts := strings.SplitN(c.Payload, "\x00", 2)
			mk := func(fAdd, gMul int) *functions.FunctionCollection {
				fc := functions.NewDefaultFunctionCollection().FunctionCollection
				fc.Add(functions.NewDelegatedFunction("f", func(p []*variants.Variant, o variants.IVariantOperations) (*variants.Variant, error) {
					return variants.VariantFromInteger(p[0].AsInteger() + fAdd), nil
				}))
				fc.Add(functions.NewDelegatedFunction("g", func(p []*variants.Variant, o variants.IVariantOperations) (*variants.Variant, error) {
					return variants.VariantFromInteger(p[0].AsInteger() * gMul), nil
				}))
				return fc
			}
			colls := map[byte]*functions.FunctionCollection{'A': mk(1, 2), 'B': mk(100, 7)}
			eval := func(calc *calculator.ExpressionCalculator, fc functions.IFunctionCollection) string {
				var r *variants.Variant
				var err error
				if pn := mon.Try(func() { r, err = calc.EvaluateUsingVariablesAndFunctions(nil, fc) }); pn != nil {
					return "PANIC " + pn.Sig()
				}
				if err != nil {
					return "error " + errCode(err) + " " + err.Error()
				}
				return snap(r).String()
			}
			used := calculator.NewExpressionCalculator()
			if err := used.SetExpression(parts[1]); err != nil {
				c.Failf("expression rejected", "%q: %v", parts[1], err)
				return
			}
			steps := []byte{parts[0][0], parts[0][1], parts[0][0], 'D', '+', 'D', '-', 'D', parts[0][1]}
			var addedF functions.IFunction
			for i, st := range steps {
				fresh := calculator.NewExpressionCalculator()
				fresh.SetExpression(parts[1])
				var got, want string
				switch st {
				case 'A', 'B':
					got, want = eval(used, colls[st]), eval(fresh, colls[st])
				case '+':
					f := functions.NewDelegatedFunction("f", func(p []*variants.Variant, o variants.IVariantOperations) (*variants.Variant, error) {
						return variants.VariantFromInteger(-5), nil
					})
					used.DefaultFunctions().Add(f)
					addedF = f
					continue
				case '-':
					used.DefaultFunctions().RemoveByName("f")
					addedF = nil
					continue
				case 'D':
					if addedF != nil { // the fresh one gets the default table the caller has built so far: the 37 defaults plus what '+' added
						fresh.DefaultFunctions().Add(addedF)
					}
					got, want = eval(used, nil), eval(fresh, nil)
				}
				if got != want {
					c.Failf("expression-calculator instance: result depends on the function collections used earlier", "expression=%q step %d (%c of %q): fresh calculator %s, reused calculator %s", parts[1], i, st, steps, want, got)
					return
				}
			}
		},
	})
	return subs
}
