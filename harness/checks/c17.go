package checks

import (
	"fmt"
	"math"
	"sort"
	"strconv"
	"strings"

	"github.com/pip-services3-gox/pip-services3-expressions-gox/tokenizers"
	"github.com/pip-services3-gox/pip-services3-expressions-gox/tokenizers/generic"
	"github.com/pip-services3-gox/pip-services3-expressions-gox/tokenizers/utilities"

	"verifharness/mon"
)

// C17 — character-class maps answer with the latest covering registration.

func init() { mon.Register("C17", buildC17) }

var c17Endpoints = []rune{0, 'a', 0xFF, 0x100, 0x101, 0x2000, 0xFFFE}

type c17Op struct {
	kind   byte // 'i' interval, 'd' default, 'c' clear
	lo, hi rune
	ref    int // 0 none, 1 A, 2 B
}

var c17Ops []c17Op
var c17CoreOps int // the first c17CoreOps operations have both ends inside U+0000..U+FFFE
var c17Probes []rune
var c17RefA, c17RefB = new(int), new(int)

func init() {
	for i, lo := range c17Endpoints {
		for _, hi := range c17Endpoints[i:] {
			for ref := 0; ref < 3; ref++ {
				c17Ops = append(c17Ops, c17Op{'i', lo, hi, ref})
			}
		}
	}
	for ref := 0; ref < 3; ref++ {
		c17Ops = append(c17Ops, c17Op{'d', 0, 0, ref})
	}
	c17Ops = append(c17Ops, c17Op{'c', 0, 0, 0})
	c17CoreOps = len(c17Ops)
	// ranges whose end lies beyond the map's last character U+FFFE ("up to the last rune"): the part inside counts
	for _, lo := range c17Endpoints {
		for _, hi := range []rune{0xFFFF, 0x10FFFF, math.MaxInt32} {
			for ref := 0; ref < 3; ref++ {
				c17Ops = append(c17Ops, c17Op{'i', lo, hi, ref})
			}
		}
	}
	seen := map[rune]bool{}
	for _, e := range c17Endpoints {
		for _, p := range []rune{e - 1, e, e + 1} {
			if p >= 0 && !seen[p] {
				seen[p] = true
				c17Probes = append(c17Probes, p)
			}
		}
	}
	c17Probes = append(c17Probes, 0x301, 0x20D0, 0x1000, 0x8000, 0xD7FF, 0xD800, 0xDBFF, 0xDFFF, 0xE000, 0x10000, 0x10061, 0x10100, 0x12000, 0x1FFFE, 0x10FFFF)
}

func (o c17Op) String() string {
	names := []string{"none", "A", "B"}
	switch o.kind {
	case 'i':
		return fmt.Sprintf("AddInterval(%#x,%#x,%s)", o.lo, o.hi, names[o.ref])
	case 'd':
		return fmt.Sprintf("AddDefaultInterval(%s)", names[o.ref])
	}
	return "Clear()"
}

func c17Ref(i int) any {
	switch i {
	case 1:
		return c17RefA
	case 2:
		return c17RefB
	}
	return nil
}

// c17Run applies a history (op indexes as bytes) to a real map and to the
// list model, probing after every operation.
func c17Run(c *mon.Case, hist string) {
	m := utilities.NewCharReferenceMap()
	type reg struct {
		lo, hi rune
		ref    int
	}
	var model []reg // newest last
	var desc []string
	crossed := false
	for step := 0; step < len(hist); step++ {
		op := c17Ops[int(hist[step])%len(c17Ops)]
		desc = append(desc, op.String())
		switch op.kind {
		case 'i':
			m.AddInterval(op.lo, op.hi, c17Ref(op.ref))
			model = append(model, reg{op.lo, op.hi, op.ref})
			if op.lo < 0x100 && op.hi >= 0x100 {
				crossed = true
			}
		case 'd':
			m.AddDefaultInterval(c17Ref(op.ref))
			model = append(model, reg{0, 0xFFFE, op.ref})
			crossed = true
		case 'c':
			m.Clear()
			model = model[:0]
		}
		// the probes are visited in an order that rotates with the step, so that the last character looked up
		// before the next registration varies (a cache of the last lookup would otherwise stay hidden)
		rot := (step*7 + int(hist[step])) % len(c17Probes)
		for pi := range c17Probes {
			p := c17Probes[(pi+rot)%len(c17Probes)]
			want := 0
			for i := len(model) - 1; i >= 0; i-- {
				if p >= model[i].lo && p <= model[i].hi {
					want = model[i].ref
					break
				}
			}
			if p > 0xFFFE && want != 0 {
				// beyond the map's last character but nominally inside a range that ends out there: the map clips such
				// ranges, what it answers here is not judged; a probe out there that NO range reaches must still find nothing
				continue
			}
			got := m.Lookup(p)
			ok := false
			switch want {
			case 0:
				ok = got == nil
			case 1:
				ok = got == any(c17RefA)
			case 2:
				ok = got == any(c17RefB)
			}
			if !ok {
				zone := "below U+0100"
				if p >= 0x100 {
					zone = "at or above U+0100"
				}
				c.Failf("lookup "+zone+" does not return the latest covering registration",
					"history=[%s] probe=%#x: want reference %s, got %T %v", strings.Join(desc, "; "), p, []string{"none", "A", "B"}[want], got, got)
				return
			}
		}
	}
	if crossed {
		c.NonTrivial()
	}
}

func c17Sample(payload string) any {
	var d []string
	for i := 0; i < len(payload); i++ {
		d = append(d, c17Ops[int(payload[i])%len(c17Ops)].String())
	}
	return strings.Join(d, "; ")
}

func buildC17(cfg *mon.Config) []*mon.Sub {
	maxLen := 3
	exh := &mon.Sub{
		Name:          "history-exhaustive",
		Rule:          fmt.Sprintf("every history of length <= %d over the 88 operations {AddInterval(lo,hi,ref) for the 28 ordered endpoint pairs of {0,'a',0xFF,0x100,0x101,0x2000,0xFFFE} x refs {A,B,none}; AddDefaultInterval(ref); Clear}, probed after every operation at every endpoint and its neighbours plus 0x1000, 0x8000, 0xFFFF (%d probes) against a newest-first list model with pointer identity; plus every history of length 2 in which at least one range ends beyond the map's last character (at U+FFFF, U+10FFFF or the largest rune value 0x7FFFFFFF; the part of such a range inside U+0000..U+FFFE counts; a probe beyond U+FFFE is judged only when no range reaches it: it must find nothing); non-trivial = some registration spans the U+0100 boundary", maxLen, len(c17Probes)),
		Exhaustive:    true,
		DistinctByGen: true,
		Floor:         1000,
		Gen: func(emit func(string)) {
			n := c17CoreOps
			buf := make([]byte, 0, 4)
			var rec func(d int)
			rec = func(d int) {
				if len(buf) > 0 {
					emit(string(buf))
				}
				if d == 0 {
					return
				}
				for i := 0; i < n; i++ {
					buf = append(buf, byte(i))
					rec(d - 1)
					buf = buf[:len(buf)-1]
				}
			}
			// only maximal histories are emitted: probing happens after every step
			var recMax func(d int)
			recMax = func(d int) {
				if d == 0 {
					emit(string(buf))
					return
				}
				for i := 0; i < n; i++ {
					buf = append(buf, byte(i))
					recMax(d - 1)
					buf = buf[:len(buf)-1]
				}
			}
			_ = rec
			recMax(maxLen)
			// all histories of length 2 over the full operation list (with the ranges that end beyond U+FFFE)
			n = len(c17Ops)
			for i := c17CoreOps; i < n; i++ {
				for j := 0; j < n; j++ {
					emit(string([]byte{byte(i), byte(j)}))
					emit(string([]byte{byte(j), byte(i)}))
				}
			}
		},
		Exec: func(c *mon.Case) { c17Run(c, c.Payload) }, Sample: c17Sample,
	}
	rnd := &mon.Sub{
		Name:  "history-random",
		Rule:  "seeded random histories of length 4..30 over the same 88 operations and the 63 ranges that end beyond U+FFFE (length 4 sampled densely; one in eight with 34..93 registrations and no Clear), same oracle",
		Floor: 1000,
		Gen: func(emit func(string)) {
			r := cfg.Rng("c17-random")
			for i := 0; i < cfg.N(40000, 5000000); i++ {
				n := 4
				if r.Chance(1, 4) {
					n = 4 + r.Intn(27)
				} else if r.Chance(1, 6) {
					n = 34 + r.Intn(60) // many registrations without a Clear
				}
				b := make([]byte, n)
				for j := range b {
					b[j] = byte(r.Intn(len(c17Ops)))
					if n > 33 && c17Ops[b[j]].kind == 'c' {
						b[j] = byte(r.Intn(84)) // long histories: no Clear
					}
					if r.Chance(1, 2) && int(b[j]) >= c17CoreOps {
						b[j] = byte(r.Intn(c17CoreOps))
					}
				}
				emit(string(b))
			}
		},
		Exec: func(c *mon.Case) { c17Run(c, c.Payload) }, Sample: c17Sample,
	}
	tokz := &mon.Sub{
		Name:          "tokenizer-consequence",
		Rule:          "for every endpoint range [lo,hi] and probe p in it: (a) after SetCharacterState(lo,hi,quoteState) on a generic tokenizer GetCharacterState(p) is that state; (b) after SetWordChars(lo,hi,false) a word 'ab'+p+'cd' stops before p, and after ClearWordChars+SetWordChars(lo,hi,true) p continues a word; (c) the default generic, expression, mustache and CSV tokenizers hand p (>= U+0100) to their configured word/symbol state; non-trivial = p >= U+0100",
		Exhaustive:    true,
		DistinctByGen: true,
		Floor:         50,
		Gen: func(emit func(string)) {
			for i, lo := range c17Endpoints {
				for _, hi := range c17Endpoints[i:] {
					for _, p := range c17Probes {
						if p >= lo && p <= hi && p > ' ' && p != 0xFFFF {
							emit(fmt.Sprintf("%d %d %d", lo, hi, p))
						}
					}
				}
			}
		},
		Exec: func(c *mon.Case) {
			var lo, hi, p rune
			fmt.Sscanf(c.Payload, "%d %d %d", &lo, &hi, &p)
			if p >= 0x100 {
				c.NonTrivial()
			}
			t := generic.NewGenericTokenizer()
			t.SetCharacterState(lo, hi, t.QuoteState())
			if got := t.GetCharacterState(p); got != tokenizers.ITokenizerState(t.QuoteState()) {
				c.Failf("tokenizer does not hand a configured character to the configured state", "SetCharacterState(%#x,%#x,quote) then GetCharacterState(%#x) = %T", lo, hi, p, got)
				return
			}
			// (b) disabling really disables
			t2 := generic.NewGenericTokenizer()
			setOptions(t2, 0)
			t2.WordState().SetWordChars(lo, hi, false)
			in := "ab" + string(p) + "cd"
			if p == '"' || p == '\'' || p == '#' {
				return
			}
			if lo <= 'd' && hi >= 'a' {
				c.Unspecified("range disables the letters of the probe word itself")
			} else {
				ts := tokenizeAll(t2, in)
				if len(ts) == 0 || ts[0].Value != "ab" {
					c.Failf("disabling a word-character range does not stop words at its characters", "SetWordChars(%#x,%#x,false); %q -> %s", lo, hi, in, toksString(ts))
					return
				}
				for _, x := range ts {
					if x.Type == tokenizers.Word && strings.ContainsRune(x.Value, p) {
						c.Failf("disabling a word-character range does not stop words at its characters", "SetWordChars(%#x,%#x,false); %q -> %s: a word contains the disabled character", lo, hi, in, toksString(ts))
						return
					}
				}
			}
			// (b') the same for the whitespace state: after the range is disabled a blank run stops before its characters
			if p < 0xFFFF {
				t4 := generic.NewGenericTokenizer()
				setOptions(t4, 0)
				t4.WhitespaceState().SetWhitespaceChars(0, 0xFFFE, true)
				t4.WhitespaceState().SetWhitespaceChars(lo, hi, false)
				t4.SetCharacterState(0, 0xFFFE, t4.WhitespaceState())
				t4.SetCharacterState(lo, hi, t4.SymbolState())
				filler := rune(' ')
				if lo <= ' ' && hi >= ' ' {
					filler = 0x3000
					if lo <= filler && hi >= filler {
						filler = 0
					}
				}
				if filler != 0 {
					in4 := string(filler) + string(filler) + string(p) + string(filler)
					ts4 := tokenizeAll(t4, in4)
					if len(ts4) == 0 || ts4[0].Value != string(filler)+string(filler) {
						c.Failf("disabling a whitespace-character range does not stop blank runs at its characters", "all characters made whitespace, then SetWhitespaceChars(%#x,%#x,false) and the range handed to the symbol state; %q -> %s", lo, hi, in4, toksString(ts4))
						return
					}
				}
			}
			t3 := generic.NewGenericTokenizer()
			setOptions(t3, 0)
			t3.WordState().ClearWordChars()
			t3.WordState().SetWordChars('a', 'z', true)
			t3.WordState().SetWordChars(lo, hi, true)
			ts := tokenizeAll(t3, in)
			if len(ts) == 0 || ts[0].Value != in {
				c.Failf("enabling a word-character range does not let its characters continue a word", "ClearWordChars; SetWordChars(a..z); SetWordChars(%#x,%#x,true); %q -> %s", lo, hi, in, toksString(ts))
				return
			}
			if p >= 0x100 && p <= 0xFFFE {
				for _, kind := range []string{"generic", "mustache", "csv"} {
					tk := newTokenizer(kind)
					setOptions(tk, 0)
					in := string(p) + "a"
					if kind == "mustache" {
						in = "{{" + in
					}
					ts := tokenizeAll(tk, in)
					last := ts[len(ts)-2]
					if last.Type != tokenizers.Word || last.Value != string(p)+"a" {
						c.Failf("default tokenizer does not hand a non-Latin letter to its word state", "%s tokenizer: %q -> %s", kind, in, toksString(ts))
						return
					}
				}
			}
		},
	}
	tokHist := &mon.Sub{
		Name:  "tokenizer-state-history",
		Rule:  "seeded histories of 2..6 calls SetCharacterState(lo, hi, state) on one generic tokenizer, lo <= hi from {0, '!', 'a', 'z', '~', 0xFF, 0x100, 0x2000, 0xFFFE}, state from {word, symbol, quote, number, whitespace, none}; after every call GetCharacterState of 40 probe characters must be the state of the latest call whose range contains the probe, or what a fresh tokenizer answers when no call covers it (so a range whose ends already have the requested state is still applied to its inside, and disabling really disables); non-trivial = some call's range had both ends already in the requested state",
		Floor: 1000,
		Gen: func(emit func(string)) {
			r := cfg.Rng("c17-tokhist")
			for i := 0; i < cfg.N(20000, 1000000); i++ {
				n := 2 + r.Intn(5)
				b := make([]byte, 3*n)
				for j := 0; j < n; j++ {
					lo, hi := r.Intn(9), r.Intn(9)
					if lo > hi {
						lo, hi = hi, lo
					}
					b[3*j], b[3*j+1], b[3*j+2] = byte('0'+lo), byte('0'+hi), byte('0'+r.Intn(6))
				}
				emit(string(b))
			}
		},
		Exec: func(c *mon.Case) {
			ends := []rune{0, '!', 'a', 'z', '~', 0xFF, 0x100, 0x2000, 0xFFFE}
			probes := []rune{}
			for _, e := range ends {
				probes = append(probes, e, e+1)
				if e > 0 {
					probes = append(probes, e-1)
				}
			}
			probes = append(probes, 'A', 'm', '5', ' ', '"', '+', 0x80, 0xC0, 0x150, 0x1000, 0x3000, 0x8000, 0xF000)
			t, fresh := generic.NewGenericTokenizer(), generic.NewGenericTokenizer()
			states := []tokenizers.ITokenizerState{t.WordState(), t.SymbolState(), t.QuoteState(), t.NumberState(), t.WhitespaceState(), nil}
			freshStates := []tokenizers.ITokenizerState{fresh.WordState(), fresh.SymbolState(), fresh.QuoteState(), fresh.NumberState(), fresh.WhitespaceState(), nil}
			names := []string{"word", "symbol", "quote", "number", "whitespace", "none"}
			index := func(st tokenizers.ITokenizerState, of []tokenizers.ITokenizerState) int {
				for i, s := range of {
					if st == s || (st == nil && s == nil) {
						return i
					}
				}
				return -1
			}
			type call struct {
				lo, hi rune
				st     int
			}
			var hist []call
			var desc []string
			for j := 0; j+2 < len(c.Payload); j += 3 {
				cl := call{ends[c.Payload[j]-'0'], ends[c.Payload[j+1]-'0'], int(c.Payload[j+2] - '0')}
				if index(t.GetCharacterState(cl.lo), states) == cl.st && index(t.GetCharacterState(cl.hi), states) == cl.st {
					c.NonTrivial()
				}
				if p := mon.Try(func() { t.SetCharacterState(cl.lo, cl.hi, states[cl.st]) }); p != nil {
					c.FailPanic("SetCharacterState", p)
					return
				}
				hist = append(hist, cl)
				desc = append(desc, fmt.Sprintf("SetCharacterState(%#x,%#x,%s)", cl.lo, cl.hi, names[cl.st]))
				for _, p := range probes {
					if p > 0xFFFE {
						continue
					}
					want := index(fresh.GetCharacterState(p), freshStates)
					for k := len(hist) - 1; k >= 0; k-- {
						if p >= hist[k].lo && p <= hist[k].hi {
							want = hist[k].st
							break
						}
					}
					if got := index(t.GetCharacterState(p), states); got != want {
						nm := func(i int) string {
							if i < 0 {
								return "another state"
							}
							return names[i]
						}
						c.Failf("tokenizer does not hand a configured character to the configured state", "generic tokenizer after [%s]: GetCharacterState(%#x) is %s, the latest covering call says %s", strings.Join(desc, "; "), p, nm(got), nm(want))
						return
					}
				}
			}
		},
	}
	wide := &mon.Sub{
		Name:  "history-random-endpoints",
		Rule:  "seeded histories of 3..40 registrations whose ends are drawn from all of U+0000..U+FFFE (half of them from 48 fixed values so that ranges nest, touch and repeat; starts also in ascending runs), references A, B, none, with an occasional Clear; after every operation the map is probed at every end used so far and its two neighbours against the newest-first list model; non-trivial = at least 8 registrations above U+00FF are alive",
		Floor: 1000,
		Gen: func(emit func(string)) {
			r := cfg.Rng("c17-wide")
			for i := 0; i < cfg.N(6000, 400000); i++ {
				emit(strconv.FormatUint(r.Next(), 10))
			}
		},
		Exec: func(c *mon.Case) {
			seed, _ := strconv.ParseUint(c.Payload, 10, 64)
			r := mon.NewRng(seed, "c17-wide-case")
			fixed := make([]rune, 48)
			for i := range fixed {
				fixed[i] = rune(r.Intn(0xFFFF))
			}
			sort.Slice(fixed, func(i, j int) bool { return fixed[i] < fixed[j] })
			pick := func() rune {
				if r.Bool() {
					return mon.Pick(r, fixed)
				}
				return rune(r.Intn(0xFFFF))
			}
			m := utilities.NewCharReferenceMap()
			type reg struct {
				lo, hi rune
				ref    int
			}
			var model []reg
			var desc []string
			probes := map[rune]bool{}
			n := 3 + r.Intn(38)
			ascending := r.Chance(1, 3)
			next := 0
			upper := 0
			for step := 0; step < n; step++ {
				if r.Chance(1, 25) {
					m.Clear()
					model, upper = model[:0], 0
					desc = append(desc, "Clear()")
				} else {
					lo, hi := pick(), pick()
					if ascending { // strictly ascending starts, sometimes nested in an earlier wide range
						lo = fixed[next%len(fixed)]
						next += 1 + r.Intn(2)
						hi = lo + rune(r.Intn(0x300))
						if step == 0 {
							lo, hi = 0x100, 0xFFFE
						}
					}
					if lo > hi {
						lo, hi = hi, lo
					}
					if hi > 0xFFFE {
						hi = 0xFFFE
					}
					if lo > hi {
						lo = hi
					}
					ref := r.Intn(3)
					m.AddInterval(lo, hi, c17Ref(ref))
					model = append(model, reg{lo, hi, ref})
					desc = append(desc, fmt.Sprintf("AddInterval(%#x,%#x,%s)", lo, hi, []string{"none", "A", "B"}[ref]))
					if hi >= 0x100 {
						upper++
					}
					for _, e := range []rune{lo, hi} {
						probes[e], probes[e+1] = true, true
						if e > 0 {
							probes[e-1] = true
						}
					}
				}
				if upper >= 8 {
					c.NonTrivial()
				}
				for p := range probes {
					if p > 0xFFFE {
						continue
					}
					want := 0
					for i := len(model) - 1; i >= 0; i-- {
						if p >= model[i].lo && p <= model[i].hi {
							want = model[i].ref
							break
						}
					}
					got := m.Lookup(p)
					if (want == 0 && got != nil) || (want == 1 && got != any(c17RefA)) || (want == 2 && got != any(c17RefB)) {
						zone := "below U+0100"
						if p >= 0x100 {
							zone = "at or above U+0100"
						}
						c.Failf("lookup "+zone+" does not return the latest covering registration", "history=[%s] probe=%#x: want reference %s, got %T %v", strings.Join(desc, "; "), p, []string{"none", "A", "B"}[want], got, got)
						return
					}
				}
			}
		},
	}
	subs := []*mon.Sub{exh, rnd, tokz, tokHist, wide}
	if !cfg.Quick() {
		// length 4 exhaustively would be 60M histories; sampled densely above.
	}
	return subs
}
