package checks

import (
	"encoding/json"
	"fmt"
	"strings"

	"github.com/pip-services3-gox/pip-services3-expressions-gox/csv"
	"github.com/pip-services3-gox/pip-services3-expressions-gox/tokenizers"

	"verifharness/mon"
)

// C09 — CSV text round-trips through the tokenizer for any table and configuration.

func init() { mon.Register("C09", buildC09) }

type csvConfig struct {
	Seps   string `json:"s"`
	Quotes string `json:"q"`
	Eol    string `json:"e"`
}

var csvConfigs = []csvConfig{
	{",", "\"", ""}, {"\t;", "'\"", ""}, {";|", "\"", ""}, {"‖", "“", ""}, {",", "'`", ""}, {",ш", "\"€", ""}, {",;", "\"", ""}, {" ", "\"", ""}, {"; ", "'\"", ""},
}
var csvEols = []string{"\n", "\r", "\r\n", "\n\r"}

type csvCase struct {
	Cfg   csvConfig  `json:"c"`
	Table [][]string `json:"t"`
	Pick  int        `json:"p"`            // selects which separator / quote the writer uses
	Force int        `json:"f,omitempty"`  // 1: every field is written quote-encoded, 2: every second one, 0: only those that need it
	Seol  string     `json:"se,omitempty"` // when set: SetEndOfLine(Seol) is called before the separators and quotes are configured
}

func csvWrite(cs *csvCase) string {
	seps, quotes := []rune(cs.Cfg.Seps), []rune(cs.Cfg.Quotes)
	var b strings.Builder
	k := cs.Pick
	for ri, row := range cs.Table {
		if ri > 0 {
			b.WriteString(cs.Cfg.Eol)
		}
		for fi, f := range row {
			if fi > 0 {
				b.WriteRune(seps[k%len(seps)])
				k++
			}
			if strings.ContainsAny(f, cs.Cfg.Seps+cs.Cfg.Quotes+"\r\n") || cs.Force == 1 || (cs.Force == 2 && (ri+fi)%2 == 0) {
				q := string(quotes[k%len(quotes)])
				k++
				b.WriteString(q + strings.ReplaceAll(f, q, q+q) + q)
			} else {
				b.WriteString(f)
			}
		}
	}
	return b.String()
}

func c09Exec(c *mon.Case) {
	if strings.HasPrefix(c.Payload, "[") {
		// reconfiguration: one tokenizer, two configurations in a row; the caller re-uses its own slices
		var css []csvCase
		json.Unmarshal([]byte(c.Payload), &css)
		t := csv.NewCsvTokenizer()
		var seps, quotes []rune
		for i := range css {
			ns, nq := []rune(css[i].Cfg.Seps), []rune(css[i].Cfg.Quotes)
			if p := mon.Try(func() {
				// quotes first, separators last: no configuration call follows that could rebuild the
				// states behind a separator call that did nothing
				if i == 0 && css[i].Cfg.Quotes == "\"" {
					// the default quote is what is wanted: the caller leaves it alone
					quotes = t.QuoteSymbols()
				} else {
					if len(nq) == len(quotes) {
						copy(quotes, nq) // edit the caller's buffer in place and hand it over again
					} else {
						quotes = nq
					}
					t.SetQuoteSymbols(quotes)
				}
				if len(ns) == len(seps) {
					copy(seps, ns)
				} else if i == 0 && len(ns) == 2 && ns[0] == ',' {
					seps = append(t.FieldSeparators(), ns[1]) // get, append one, set
				} else {
					seps = ns
				}
				t.SetFieldSeparators(seps)
				if string(t.FieldSeparators()) != css[i].Cfg.Seps || string(t.QuoteSymbols()) != css[i].Cfg.Quotes {
					panic(fmt.Sprintf("after SetQuoteSymbols(%q) and SetFieldSeparators(%q) the getters return %q and %q", css[i].Cfg.Quotes, css[i].Cfg.Seps, string(t.QuoteSymbols()), string(t.FieldSeparators())))
				}
			}); p != nil {
				c.FailPanic("CSV tokenizer reconfiguration", p)
				return
			}
			if !c09Check(c, &css[i], t, fmt.Sprintf(" (configuration #%d on a reconfigured tokenizer)", i+1)) {
				return
			}
		}
		return
	}
	var cs csvCase
	json.Unmarshal([]byte(c.Payload), &cs)
	c09Check(c, &cs, nil, "")
}

func c09Check(c *mon.Case, csp *csvCase, t *csv.CsvTokenizer, ctx string) bool {
	cs := *csp
	text := csvWrite(&cs)
	if text == "" {
		c.Unspecified("table whose text is empty")
		return true
	}
	var toks []tok
	var strs []string
	p := mon.Try(func() {
		if t == nil {
			t = csv.NewCsvTokenizer()
			if cs.Seol != "" {
				t.SetEndOfLine(cs.Seol)
			}
			t.SetQuoteSymbols([]rune{0x7f}) // free the default quote before installing separators
			t.SetFieldSeparators([]rune(cs.Cfg.Seps))
			t.SetQuoteSymbols([]rune(cs.Cfg.Quotes))
		}
		setOptions(t, optDecodeStrings)
		toks = tokenizeAll(t, text)
		strs = t.TokenizeBufferToStrings(text)
	})
	if p != nil {
		if _, ok := p.Val.(mon.NoProgress); ok {
			c.Failf("CSV tokenizer did not terminate", "text=%q", text)
		} else {
			c.FailPanic("CSV tokenizer", p)
		}
		return false
	}
	// the string-list entry point must deliver the very same values
	sameStrs := len(strs) == len(toks)
	for i := 0; sameStrs && i < len(toks); i++ {
		sameStrs = strs[i] == toks[i].Value
	}
	if !sameStrs {
		c.Failf("TokenizeBufferToStrings does not deliver the values of the token stream"+ctx, "separators=%q quotes=%q text=%q\ntokens  %s\nstrings %q", cs.Cfg.Seps, cs.Cfg.Quotes, text, toksString(toks), strs)
		return false
	}
	var rows [][]string
	row := []string{}
	field := ""
	eols := 0
	inField := 0
	split := false
	for _, t := range toks {
		if t.Type == tokenizers.Eof || t.Type == tokenizers.Eol || (t.Type == tokenizers.Symbol && len([]rune(t.Value)) == 1 && strings.ContainsRune(cs.Cfg.Seps, []rune(t.Value)[0])) {
			inField = 0
		} else {
			inField++
			if inField > 1 {
				split = true
			}
		}
		switch {
		case t.Type == tokenizers.Eof:
		case t.Type == tokenizers.Eol:
			row = append(row, field)
			rows = append(rows, row)
			row, field = []string{}, ""
			eols++
		case t.Type == tokenizers.Symbol && len([]rune(t.Value)) == 1 && strings.ContainsRune(cs.Cfg.Seps, []rune(t.Value)[0]):
			row = append(row, field)
			field = ""
		default:
			field += t.Value
		}
	}
	row = append(row, field)
	rows = append(rows, row)
	same := len(rows) == len(cs.Table)
	for i := 0; same && i < len(rows); i++ {
		if len(rows[i]) != len(cs.Table[i]) {
			same = false
			break
		}
		for j := range rows[i] {
			if rows[i][j] != cs.Table[i][j] {
				same = false
			}
		}
	}
	if !same {
		cls := ""
		if len(text) != len([]rune(text)) {
			cls = " (non-ASCII text)"
		}
		c.Failf("CSV round trip does not recover the table"+cls+ctx, "separators=%q quotes=%q line end=%q\ntable %q\ntext  %q\ntokens %s\nrows  %q", cs.Cfg.Seps, cs.Cfg.Quotes, cs.Cfg.Eol, cs.Table, text, toksString(toks), rows)
		return false
	}
	if split {
		c.Failf("a single field is cut into several tokens"+ctx, "separators=%q quotes=%q text=%q tokens %s", cs.Cfg.Seps, cs.Cfg.Quotes, text, toksString(toks))
		return false
	}
	if eols != len(cs.Table)-1 {
		c.Failf("a line ending is not exactly one end-of-line token", "line end=%q text=%q tokens %s", cs.Cfg.Eol, text, toksString(toks))
		return false
	}
	if strings.ContainsAny(text, cs.Cfg.Quotes) {
		c.NonTrivial()
	}
	return true
}

func buildC09(cfg *mon.Config) []*mon.Sub {
	emitCase := func(emit func(string), cs csvCase) {
		b, _ := json.Marshal(cs)
		emit(string(b))
	}
	oracle := "the harness' own writer emits a field raw iff it contains no separator, quote, CR or LF and otherwise wraps it in one of the configured quotes with that quote doubled, joins fields with one of the configured separators and rows with the line ending; the text is tokenized by a real CsvTokenizer configured with those separators and quotes and string decoding on; TokenizeBufferToStrings must deliver the same values as the token stream; regrouping the tokens on separator symbols and end-of-line tokens must give back exactly the rows and fields, and the number of end-of-line tokens must be rows-1; non-trivial = the text contains a quote"
	alpha := []string{"a", ",", "\"", "'", "\r", "\n", " ", "é", "ш"}
	var f1, f2 []string
	enumStrings(alpha, 1, func(p []string) { f1 = append(f1, joinParts(p)) })
	enumStrings(alpha, 2, func(p []string) { f2 = append(f2, joinParts(p)) })
	exh := &mon.Sub{
		Name:          "exhaustive-small-tables",
		Rule:          fmt.Sprintf("default configuration (',' and '\"') and the TAB/';' + two-quote configuration: every 1x1 table with a field of length <= %d over {a , \" ' CR LF space é ш}, every 1x2 (also with both fields written quote-encoded whether they need it or not) and 2x1 table of fields of length <= 2, every 2x2 table of fields of length <= 1, each multi-row table with all four line endings; ", cfg.N(4, 5)) + oracle,
		Exhaustive:    true,
		DistinctByGen: true,
		Floor:         1000,
		Gen: func(emit func(string)) {
			for ci, cfgc := range csvConfigs[:2] {
				c1 := cfgc
				c1.Eol = "\n"
				enumStrings(alpha, cfg.N(4, 5), func(p []string) {
					emitCase(emit, csvCase{Cfg: c1, Table: [][]string{{joinParts(p)}}, Pick: ci})
				})
				for _, a := range f2 {
					for _, b := range f2 {
						emitCase(emit, csvCase{Cfg: c1, Table: [][]string{{a, b}}, Pick: len(a)})
						emitCase(emit, csvCase{Cfg: c1, Table: [][]string{{a, b}}, Pick: len(a), Force: 1})
						for _, e := range csvEols {
							c2 := cfgc
							c2.Eol = e
							emitCase(emit, csvCase{Cfg: c2, Table: [][]string{{a}, {b}}, Pick: len(b)})
						}
					}
				}
				for _, a := range f1 {
					for _, b := range f1 {
						for _, cc := range f1 {
							for _, d := range f1 {
								for _, e := range csvEols {
									c2 := cfgc
									c2.Eol = e
									emitCase(emit, csvCase{Cfg: c2, Table: [][]string{{a, b}, {cc, d}}, Pick: 0})
								}
							}
						}
					}
				}
			}
		},
		Exec: c09Exec,
	}
	rnd := &mon.Sub{
		Name:  "random-tables",
		Rule:  "seeded tables up to 6x6 with fields up to 12 characters from letters, digits, every separator and quote of the configuration, the quotes of other configurations, CR, LF, blanks, Latin-1, Cyrillic, €, U+FFFE, U+0001, empty fields and fields made only of quotes x six configurations (incl. separator and quote above U+00FF, several separators, several quotes) x four line endings; in a third of the cases all or every second field is written quote-encoded although it would not need it (so also empty fields as two quotes), in a quarter SetEndOfLine(one of the four line endings) is called before the separators and quotes are configured; " + oracle + "; distinct by hash",
		Floor: 1000,
		Gen: func(emit func(string)) {
			r := cfg.Rng("c09-random")
			chars := []string{"a", "b", "Z", "0", "9", " ", "  ", "\t", ",", ";", "|", "\"", "'", "`", "\r", "\n", "\r\n", "é", "ÿ", "ш", "€", "￾", "\x01", "\v", "\f", "\x1f", "\x7f", "‖", "“", "\"\"", "''", ".", "-", "#", "/", "{"}
			for i := 0; i < cfg.N(20000, 1500000); i++ {
				cc := mon.Pick(r, csvConfigs)
				cc.Eol = mon.Pick(r, csvEols)
				rows := 1 + r.Intn(6)
				cols := 1 + r.Intn(6)
				tb := make([][]string, rows)
				for ri := range tb {
					tb[ri] = make([]string, cols)
					for ci := range tb[ri] {
						var b strings.Builder
						n := r.Intn(7)
						if r.Chance(1, 6) {
							n = 0
						}
						for k := 0; k < n; k++ {
							b.WriteString(mon.Pick(r, chars))
						}
						tb[ri][ci] = b.String()
					}
				}
				cs := csvCase{Cfg: cc, Table: tb, Pick: r.Intn(100)}
				if r.Chance(1, 3) {
					cs.Force = 1 + r.Intn(2)
				}
				if r.Chance(1, 4) {
					cs.Seol = mon.Pick(r, csvEols)
				}
				emitCase(emit, cs)
			}
		},
		Exec: c09Exec,
	}
	recfg := &mon.Sub{
		Name:  "reconfiguration",
		Rule:  "one tokenizer is configured, used on a random table, then re-configured for another configuration (the caller edits its separator and quote slices in place when the lengths allow, or appends one separator to the list the getter returned, as a get-modify-set would; the getters must return what was set) and used on a second table; both round trips must hold; " + oracle,
		Floor: 200,
		Gen: func(emit func(string)) {
			r := cfg.Rng("c09-reconfig")
			cells := []string{"a", "b c", "", "x,y", "p;q", "say \"hi\"", "it's", "l1\nl2", "ш€", "1|2", "t\tab", "‖", "“q”"}
			for i := 0; i < cfg.N(3000, 200000); i++ {
				var css []csvCase
				for k := 0; k < 2+r.Intn(2); k++ {
					cc := mon.Pick(r, csvConfigs)
					cc.Eol = mon.Pick(r, csvEols)
					rows, cols := 1+r.Intn(3), 1+r.Intn(3)
					tb := make([][]string, rows)
					for ri := range tb {
						tb[ri] = make([]string, cols)
						for ci := range tb[ri] {
							tb[ri][ci] = mon.Pick(r, cells)
						}
					}
					if rows == 1 && cols == 1 && tb[0][0] == "" {
						tb[0][0] = "z"
					}
					css = append(css, csvCase{Cfg: cc, Table: tb, Pick: r.Intn(50)})
				}
				b, _ := json.Marshal(css)
				emit(string(b))
			}
		},
		Exec: c09Exec,
	}
	return []*mon.Sub{exh, rnd, recfg}
}
