package checks

import (
	"bytes"
	"fmt"
	"os"
	"path/filepath"
	"runtime"
	"sort"
	"strconv"
	"strings"
	"sync"
	"sync/atomic"
	"time"

	"github.com/pip-services3-gox/pip-services3-expressions-gox/calculator"
	"github.com/pip-services3-gox/pip-services3-expressions-gox/calculator/functions"
	"github.com/pip-services3-gox/pip-services3-expressions-gox/calculator/variables"
	"github.com/pip-services3-gox/pip-services3-expressions-gox/mustache"
	"github.com/pip-services3-gox/pip-services3-expressions-gox/variants"

	"verifharness/model"
	"verifharness/mon"
)

// C19 — evaluation is pure and repeatable, also under concurrent use.
// This check is built with -race (run.sh); the race reports are read back from
// the GORACE log by the last sub-check.

func init() { mon.Register("C19", buildC19) }

// ---- H3: step events of evaluations, with seeded yields

type h3Event struct {
	seq  uint64
	goid int64
}

var h3 struct {
	seq     uint64
	enabled int32
	seed    uint64
	mu      sync.Mutex
	events  []h3Event
	yields  int64
	calls   int64
}

func goid() int64 {
	var buf [40]byte
	n := runtime.Stack(buf[:], false)
	f := bytes.Fields(buf[:n])
	if len(f) < 2 {
		return -1
	}
	id, _ := strconv.ParseInt(string(f[1]), 10, 64)
	return id
}

func h3Step() {
	atomic.AddInt64(&h3.calls, 1)
	if atomic.LoadInt32(&h3.enabled) == 0 {
		return
	}
	n := atomic.AddUint64(&h3.seq, 1)
	g := goid()
	h3.mu.Lock()
	h3.events = append(h3.events, h3Event{n, g})
	h3.mu.Unlock()
	// seeded yield inside the evaluation
	x := (n + h3.seed) * 0x9E3779B97F4A7C15
	if (x>>33)%3 == 0 {
		atomic.AddInt64(&h3.yields, 1)
		runtime.Gosched()
	}
}

func installEvalHooks() {
	calculator.VerifEvalHook = func(_ *calculator.ExpressionCalculator, _ int) { h3Step() }
	mustache.VerifEvalHook = func(_ *mustache.MustacheTemplate) { h3Step() }
}

// interleaving signature: the order in which goroutines took evaluation steps
func h3Signature() (string, int) {
	h3.mu.Lock()
	ev := append([]h3Event{}, h3.events...)
	h3.events = h3.events[:0]
	h3.mu.Unlock()
	sort.Slice(ev, func(i, j int) bool { return ev[i].seq < ev[j].seq })
	ids := map[int64]int{}
	var b strings.Builder
	switches := 0
	last := -1
	for _, e := range ev {
		k, ok := ids[e.goid]
		if !ok {
			k = len(ids)
			ids[e.goid] = k
		}
		if k != last {
			if last >= 0 {
				switches++
			}
			b.WriteByte(byte('a' + k%26))
			last = k
		}
	}
	return strconv.FormatUint(mon.Hash64(b.String()), 16), switches
}

type c19Program struct {
	Kind   string   `json:"kind"` // "expr" | "tmpl"
	Source string   `json:"src"`
	Envs   []string `json:"envs"` // encEnv for expressions, JSON map for templates
	G      int      `json:"g"`
	Reps   int      `json:"reps"`
}

func calcSnapshot(calc *calculator.ExpressionCalculator, colls []*variables.VariableCollection) string {
	var b strings.Builder
	fmt.Fprintf(&b, "%v|", gotProgram(calc.ResultTokens()))
	for _, vc := range colls {
		for _, v := range vc.GetAll() {
			b.WriteString(v.Name() + "=" + snap(v.Value()).String() + ";")
		}
		b.WriteString("|")
	}
	for _, f := range calc.DefaultFunctions().GetAll() {
		b.WriteString(f.Name() + ",")
	}
	for _, v := range calc.DefaultVariables().GetAll() {
		b.WriteString(v.Name() + "=" + snap(v.Value()).String() + ";")
	}
	return b.String()
}

func evalString(calc *calculator.ExpressionCalculator, vc *variables.VariableCollection) string {
	var r *variants.Variant
	var err error
	if p := mon.Try(func() { r, err = calc.EvaluateUsingVariables(vc) }); p != nil {
		return "PANIC " + p.Sig()
	}
	if err != nil {
		return "error " + errCode(err) + " " + err.Error()
	}
	return snap(r).String()
}

func c19ExprExec(c *mon.Case) {
	i := strings.IndexByte(c.Payload, 0)
	src := c.Payload[:i]
	rest := strings.Split(c.Payload[i+1:], "\x02")
	G, _ := strconv.Atoi(rest[0])
	reps, _ := strconv.Atoi(rest[1])
	seed, _ := strconv.ParseUint(rest[2], 10, 64)
	var envs []*env
	for _, e := range rest[3:] {
		envs = append(envs, decEnv(e))
	}
	calc := calculator.NewExpressionCalculator()
	if err := calc.SetExpression(src); err != nil {
		c.Count("rejected")
		return
	}
	colls := make([]*variables.VariableCollection, len(envs))
	for k, e := range envs {
		colls[k] = e.collection()
	}
	before := calcSnapshot(calc, colls)
	// sequential: every variable set, three rounds in a seeded order
	r := mon.NewRng(seed, "c19-order")
	want := make([]string, len(envs))
	for k := range envs {
		// the reference for each variable set comes from a fresh calculator that never saw another set
		fresh := calculator.NewExpressionCalculator()
		fresh.SetExpression(src)
		want[k] = evalString(fresh, envs[k].collection())
	}
	for round := 0; round < 3; round++ {
		order := make([]int, len(envs))
		for k := range order {
			order[k] = k
		}
		for k := len(order) - 1; k > 0; k-- {
			j := r.Intn(k + 1)
			order[k], order[j] = order[j], order[k]
		}
		for _, k := range order {
			if got := evalString(calc, colls[k]); got != want[k] {
				c.Failf("evaluation interleaved with other variable sets differs from the result of a fresh calculator", "expression=%q variables=%s: fresh calculator %s, reused calculator %s", src, envs[k], want[k], got)
				return
			}
		}
	}
	if after := calcSnapshot(calc, colls); after != before {
		c.Failf("evaluation modified the compiled program, a variable value or the function table", "expression=%q\nbefore %s\nafter  %s", src, before, after)
		return
	}
	// concurrent: G goroutines share a calculator that has never evaluated anything (so lazily built state is
	// built under contention), each with its own collection
	calc = calculator.NewExpressionCalculator()
	calc.SetExpression(src)
	before = calcSnapshot(calc, colls)
	h3.seed = seed
	bad := make([]string, G)
	// Two passes.  Pass 1 with hook H3 recording and yielding (interleavings are observed and steered).  Pass 2 on
	// another fresh calculator with the hooks removed altogether: the monitor's own lock and atomics order the
	// goroutines' steps and would hide races from the race detector, so the detector also gets a run without them.
	for pass := 1; pass <= 2; pass++ {
		if pass == 2 {
			calculator.VerifEvalHook = nil
			calc = calculator.NewExpressionCalculator()
			calc.SetExpression(src)
		} else {
			atomic.StoreInt32(&h3.enabled, 1)
		}
		start := make(chan struct{})
		var wg sync.WaitGroup
		for g := 0; g < G; g++ {
			wg.Add(1)
			go func(g int) {
				defer wg.Done()
				k := g % len(envs)
				own := envs[k].collection()
				<-start
				for n := 0; n < reps; n++ {
					if got := evalString(calc, own); got != want[k] {
						bad[g] = fmt.Sprintf("goroutine %d, evaluation %d, variables=%s: sequential result %s, concurrent result %s", g, n, envs[k], want[k], got)
						return
					}
				}
			}(g)
		}
		close(start)
		wg.Wait()
		if pass == 1 {
			atomic.StoreInt32(&h3.enabled, 0)
		} else {
			installEvalHooks()
		}
	}
	sig, switches := h3Signature()
	c.Mark("distinct-interleavings-of-evaluation-steps", sig)
	c.CountN("goroutine-switches-inside-evaluations", switches)
	for _, b := range bad {
		if b != "" {
			c.Failf("concurrent evaluation of one parsed expression differs from the sequential result", "expression=%q\n%s", src, b)
			return
		}
	}
	if after := calcSnapshot(calc, colls); after != before {
		c.Failf("concurrent evaluation modified the compiled program or the function table", "expression=%q\nbefore %s\nafter  %s", src, before, after)
		return
	}
	c.AddEvals(len(envs)*4+2*G*reps-1, 0)
	c.NonTrivial()
}

func c19TmplExec(c *mon.Case) {
	parts := strings.Split(c.Payload, "\x02")
	nodes, _ := decTmpl(parts[0] + "\x00{}")
	G, _ := strconv.Atoi(parts[1])
	reps, _ := strconv.Atoi(parts[2])
	seed, _ := strconv.ParseUint(parts[3], 10, 64)
	src := model.PrintTemplate(nodes)
	g := &tmplGen{r: mon.NewRng(seed, "c19-maps")}
	maps := make([]map[string]string, 6)
	for k := range maps {
		maps[k] = g.vars(nodes)
		if seed%2 == 0 { // renderings of a kilobyte and more, of a different size for every map
			for key, v := range maps[k] {
				maps[k][key] = strings.Repeat(v+"x", 150*(k+1))
			}
		}
	}
	t := mustache.NewMustacheTemplate()
	if err := t.SetTemplate(src); err != nil {
		c.Count("rejected")
		return
	}
	render := func(m map[string]string) string {
		var s string
		var err error
		if p := mon.Try(func() { s, err = t.EvaluateWithVariables(m) }); p != nil {
			return "PANIC " + p.Sig()
		}
		return fmt.Sprintf("%q %v", s, err)
	}
	before := mtoks(t.ResultTokens())
	want := make([]string, len(maps))
	for k, m := range maps {
		want[k] = render(m)
	}
	for round := 0; round < 2; round++ {
		for k := len(maps) - 1; k >= 0; k-- {
			if got := render(maps[k]); got != want[k] {
				c.Failf("repeated rendering with equal inputs gives a different result", "template=%q variables=%q: first %s, later %s", src, maps[k], want[k], got)
				return
			}
		}
	}
	// default variables that name only every second variable of the template (the caller's map: rendering must not write to it)
	defaults := map[string]string{}
	for i, n := range model.TemplateNames(nodes) {
		if i%2 == 0 {
			defaults[n] = "D" + strconv.Itoa(i)
		}
	}
	defaultsBefore := fmt.Sprint(defaults)
	withDefaults := func() *mustache.MustacheTemplate {
		x := mustache.NewMustacheTemplate()
		x.SetTemplate(src)
		x.SetDefaultVariables(defaults)
		return x
	}
	wantDefault := func() string {
		s, err := withDefaults().EvaluateWithVariables(defaults)
		return fmt.Sprintf("%q %v", s, err)
	}()
	// the concurrent phase runs on a template instance that has never rendered anything
	t = withDefaults()
	before = mtoks(t.ResultTokens())
	h3.seed = seed
	bad := make([]string, G)
	for pass := 1; pass <= 2; pass++ { // pass 2: hooks removed, see shared-calculator
		if pass == 2 {
			mustache.VerifEvalHook = nil
			t = withDefaults()
		} else {
			atomic.StoreInt32(&h3.enabled, 1)
		}
		start := make(chan struct{})
		var wg sync.WaitGroup
		for gi := 0; gi < G; gi++ {
			wg.Add(1)
			go func(gi int) {
				defer wg.Done()
				k := gi % len(maps)
				own := map[string]string{}
				for a, b := range maps[k] {
					own[a] = b
				}
				<-start
				for n := 0; n < reps; n++ {
					if got := render(own); got != want[k] {
						bad[gi] = fmt.Sprintf("goroutine %d, rendering %d, variables=%q: sequential %s, concurrent %s", gi, n, own, want[k], got)
						return
					}
					if n%4 == 0 { // and with the template's default variables (only some of the names are set there)
						var s string
						var err error
						if p := mon.Try(func() { s, err = t.Evaluate() }); p != nil || fmt.Sprintf("%q %v", s, err) != wantDefault {
							bad[gi] = fmt.Sprintf("goroutine %d, rendering %d with the default variables %q: sequential %s, concurrent %q %v %v", gi, n, defaults, wantDefault, s, err, p)
							return
						}
					}
				}
			}(gi)
		}
		close(start)
		wg.Wait()
		if pass == 1 {
			atomic.StoreInt32(&h3.enabled, 0)
		} else {
			installEvalHooks()
		}
	}
	sig, switches := h3Signature()
	c.Mark("distinct-interleavings-of-evaluation-steps", sig)
	c.CountN("goroutine-switches-inside-evaluations", switches)
	for _, b := range bad {
		if b != "" {
			c.Failf("concurrent rendering of one parsed template differs from the sequential result", "template=%q\n%s", src, b)
			return
		}
	}
	if now := fmt.Sprint(defaults); now != defaultsBefore {
		c.Failf("rendering wrote into the default variables the caller had set", "template=%q default variables before %s, after %s", src, defaultsBefore, now)
		return
	}
	if after := mtoks(t.ResultTokens()); after != before {
		c.Failf("rendering modified the compiled template", "template=%q\nbefore %s\nafter  %s", src, before, after)
		return
	}
	c.AddEvals(len(maps)*3+2*G*reps-1, 0)
	c.NonTrivial()
}

func raceLogReports() (int, string) {
	lp := ""
	for _, kv := range strings.Fields(os.Getenv("GORACE")) {
		if strings.HasPrefix(kv, "log_path=") {
			lp = kv[len("log_path="):]
		}
	}
	if lp == "" {
		return -1, ""
	}
	files, _ := filepath.Glob(lp + ".*")
	n := 0
	first := ""
	for _, f := range files {
		b, err := os.ReadFile(f)
		if err != nil {
			continue
		}
		k := strings.Count(string(b), "WARNING: DATA RACE")
		n += k
		if k > 0 && first == "" {
			first = string(b)
			if len(first) > 6000 {
				first = first[:6000]
			}
		}
	}
	return n, first
}

func raceEnabled() bool { return raceBuild }

func buildC19(cfg *mon.Config) []*mon.Sub {
	installEvalHooks()
	exprs := &mon.Sub{
		Name:   "shared-calculator",
		Serial: true,
		Rule:   fmt.Sprintf("%d seeded expressions (typed and shape trees, deterministic functions only), each compiled once and evaluated (a) sequentially under 8 variable collections in three seeded orders - results must repeat and a deep snapshot of the compiled program (token types and constant payloads), of every variable value of every collection and of the function table must be unchanged - and (b) by G in {2,4,16} goroutines sharing the calculator, each with its own collection, hook H3 yielding at seeded program steps so that switches happen inside evaluations; every concurrent result must equal the sequential result of its variable set; runs under the Go race detector; a case is one evaluation", cfg.N(150, 4000)),
		Floor:  50,
		Gen: func(emit func(string)) {
			r := cfg.Rng("c19-expr")
			g := &exprGen{r: r}
			// rare paths first: long argument lists, string->date conversions, error paths
			directed := []string{"Sum(a, b, c, d, l, a, b, c, d, l, z)", "Max(a, b, c, d, l, z, a, b, c) - Min(a, b, c, d, l, z, a, b, c, d)", "Array(a, b, c, d, l, z, a, b, c, d, l, z)[a % 12]",
				"DayOfWeek(ds)", "DayOfWeek(ds) * 10 + DayOfWeek(dt)", "If(DayOfWeek(ds) > 3, s, t) + ds", "dt > ds", "Contains(s + t, t)", "a / z", "arr[a]", "nosuch(a) + b", "a IN arr OR b NOT IN arr",
				"s + a + x + f + p", "Sqrt(x) + Abs(d) + Round(f)", "TimeSpan(a, b, c) > TimeSpan(b)", "Date(2000 + a, b, c) < dt",
				"Choose(a - 5, b, c)", "Min(a, If(b > 5, n, c))", "Max(If(a > 5, n, b), c, d) + Choose(b - 4, a, c, d)", "a << d", "l >> d", "arr[d]", "s[99]", "a % z", "Choose(9, a, b)", "Min(a)", "x AND p", "-s", "NOT x", "n[1] + a", "a IN s", "(a << d) + (b >> d)", "If(p, a << d, b)"}
			for i := 0; i < cfg.N(150, 4000)+len(directed); i++ {
				var t *model.Node
				if r.Bool() {
					t = g.typed(1+r.Intn(5), mon.Pick(r, []string{"int", "bool", "str", "num"}))
				} else {
					t = g.shape(1 + r.Intn(4))
				}
				src := printings(t, r.Next()%1000)[0]
				if i < len(directed) {
					src = directed[i]
				}
				var envs []string
				for k := 0; k < 8; k++ {
					e := stdEnv(r)
					if k%2 == 1 { // every other collection holds the same names at other positions, plus strangers
						for a := len(e.names) - 1; a > 0; a-- {
							b := r.Intn(a + 1)
							e.names[a], e.names[b] = e.names[b], e.names[a]
							e.vals[a], e.vals[b] = e.vals[b], e.vals[a]
						}
						at := r.Intn(len(e.names) + 1)
						e.names = append(e.names[:at], append([]string{"stranger" + strconv.Itoa(k)}, e.names[at:]...)...)
						e.vals = append(e.vals[:at], append([]Val{vInt(-99)}, e.vals[at:]...)...)
					}
					envs = append(envs, encEnv(e))
				}
				G := mon.Pick(r, []int{2, 4, 16})
				emit(src + "\x00" + strconv.Itoa(G) + "\x02" + strconv.Itoa(cfg.N(40, 100)) + "\x02" + strconv.Itoa(r.Intn(1000000)) + "\x02" + strings.Join(envs, "\x02"))
			}
		},
		Exec: c19ExprExec,
		Sample: func(p string) any {
			i := strings.IndexByte(p, 0)
			rest := strings.Split(p[i+1:], "\x02")
			return map[string]string{"expression": p[:i], "goroutines": rest[0], "evaluations per goroutine": rest[1], "first variable set": decEnv(rest[3]).String()}
		},
	}
	tmpls := &mon.Sub{
		Name:   "shared-template",
		Serial: true,
		Rule:   fmt.Sprintf("%d seeded templates (C10 generator) rendered sequentially under 6 variable maps twice and then by G in {2,4,16} goroutines sharing the parsed template, each with its own map, with H3 yields inside the rendering; every fourth rendering uses the template's default variables, which the caller has set to a map naming only every second variable; results must equal the sequential ones, the compiled token tree and the caller's default map must be unchanged; under the race detector", cfg.N(100, 3000)),
		Floor:  50,
		Gen: func(emit func(string)) {
			r := cfg.Rng("c19-tmpl")
			g := &tmplGen{r: r}
			for i := 0; i < cfg.N(100, 3000); i++ {
				nodes := sanitizeTemplate(g.nodes(1+r.Intn(3), 2+r.Intn(7)))
				if len(nodes) == 0 || commentHasQuote(nodes) {
					continue
				}
				enc := encTmpl(nodes, nil)
				enc = enc[:strings.IndexByte(enc, 0)]
				emit(enc + "\x02" + strconv.Itoa(mon.Pick(r, []int{2, 4, 16})) + "\x02" + strconv.Itoa(cfg.N(40, 100)) + "\x02" + strconv.Itoa(r.Intn(1000000)))
			}
		},
		Exec: c19TmplExec,
		Sample: func(p string) any {
			parts := strings.Split(p, "\x02")
			nodes, _ := decTmpl(parts[0] + "\x00{}")
			return map[string]string{"template": model.PrintTemplate(nodes), "goroutines": parts[1], "renderings per goroutine": parts[2]}
		},
	}
	own := &mon.Sub{
		Name:   "separate-instances",
		Serial: true,
		Rule:   "16 goroutines, each constructing and owning its own tokenizers, expression calculator and mustache template, work through a shared read-only pool of inputs at the same time; every product must equal the one computed sequentially beforehand; the race detector watches for shared mutable state behind the instances (tables, caches, package variables); a case is one batch",
		Floor:  5,
		Gen: func(emit func(string)) {
			for i := 0; i < cfg.N(10, 200); i++ {
				emit(strconv.Itoa(i))
			}
		},
		Exec: func(c *mon.Case) {
			batch, _ := strconv.Atoi(c.Payload)
			r := mon.NewRng(uint64(batch), "c19-own")
			type job struct{ kind, input string }
			var jobs []job
			for k := 0; k < 40; k++ {
				switch r.Intn(4) {
				case 0:
					jobs = append(jobs, job{"tok:" + mon.Pick(r, builtinTokenizers) + ":" + strconv.Itoa(r.Intn(128)), mon.Pick(r, c05TokPool)})
				case 1:
					jobs = append(jobs, job{"expression-calculator", mon.Pick(r, c05ExprPool)})
				case 2:
					jobs = append(jobs, job{"mustache-template", mon.Pick(r, c05TmplPool)})
				default:
					jobs = append(jobs, job{"expression-parser", mon.Pick(r, c05ExprPool)})
				}
			}
			want := make([]string, len(jobs))
			for k, j := range jobs {
				want[k] = newC05Instance(j.kind).observe(j.input, 0)
			}
			var wg sync.WaitGroup
			bad := make([]string, 16)
			for g := 0; g < 16; g++ {
				wg.Add(1)
				go func(g int) {
					defer wg.Done()
					insts := map[string]*c05Instance{}
					for k, j := range jobs {
						in := insts[j.kind]
						if in == nil {
							in = newC05Instance(j.kind)
							insts[j.kind] = in
						}
						if got := in.observe(j.input, 0); got != want[k] {
							bad[g] = fmt.Sprintf("goroutine %d component %s input %q: sequential %s, concurrent %s", g, j.kind, j.input, want[k], got)
							return
						}
					}
				}(g)
			}
			wg.Wait()
			for _, b := range bad {
				if b != "" {
					c.Failf("concurrent use of separate instances differs from sequential use", "%s", b)
					return
				}
			}
			c.AddEvals(16*len(jobs)-1, 0)
			c.NonTrivial()
		},
	}
	clock := &mon.Sub{
		Name:       "shared-calculator-clock-and-random-functions",
		Serial:     true,
		Rule:       "expressions that call Rnd, Random, Now and Ticks (alone, several per expression, inside If / Sum / comparisons), each compiled once and evaluated by 2, 4 and 16 goroutines sharing the calculator (once with hook H3 yielding inside evaluations, once with the hooks removed): every evaluation must return a value without error, Rnd/Random in [0,1), the clock readings inside the interval of the whole run; the race detector watches the functions' own state; a case is one evaluation",
		Exhaustive: true, DistinctByGen: true, Floor: 50,
		Gen: func(emit func(string)) {
			for _, e := range []string{"Rnd()", "Random()", "Rnd() + Random()", "If(Rnd() < 2, a, b)", "Sum(Rnd(), Random(), Rnd(), a)", "Rnd() * a + Random() * b", "Ticks()", "Now()", "Ticks() > 0 AND Now() > dt", "If(Random() >= 0, Ticks(), 0)"} {
				for _, g := range []int{2, 4, 16} {
					emit(e + "\x00" + strconv.Itoa(g) + "\x00" + strconv.Itoa(cfg.N(50, 1500)))
				}
			}
		},
		Exec: func(c *mon.Case) {
			parts := strings.Split(c.Payload, "\x00")
			src := parts[0]
			G, _ := strconv.Atoi(parts[1])
			reps, _ := strconv.Atoi(parts[2])
			e := stdEnv(mon.NewRng(7, "c19-clock"))
			t0 := time.Now().Add(-2 * time.Second)
			for pass := 1; pass <= 2; pass++ {
				calc := calculator.NewExpressionCalculator()
				if err := calc.SetExpression(src); err != nil {
					c.Failf("expression rejected", "%q: %v", src, err)
					return
				}
				if pass == 2 {
					calculator.VerifEvalHook = nil
				} else {
					atomic.StoreInt32(&h3.enabled, 1)
				}
				bad := make([]string, G)
				start := make(chan struct{})
				var wg sync.WaitGroup
				for g := 0; g < G; g++ {
					wg.Add(1)
					go func(g int) {
						defer wg.Done()
						own := e.collection()
						<-start
						for n := 0; n < reps; n++ {
							var r *variants.Variant
							var err error
							if p := mon.Try(func() { r, err = calc.EvaluateUsingVariables(own) }); p != nil || err != nil || r == nil {
								bad[g] = fmt.Sprintf("goroutine %d, evaluation %d: result %v error %v panic %v", g, n, r, err, p)
								return
							}
							v := snap(r)
							if (src == "Rnd()" || src == "Random()") && (v.T != "F" || v.Float() < 0 || v.Float() >= 1) {
								bad[g] = fmt.Sprintf("goroutine %d, evaluation %d: %s is not in [0,1)", g, n, v)
								return
							}
							if src == "Now()" && (v.T != "T" || v.Time().Before(t0) || v.Time().After(time.Now().Add(2*time.Second))) {
								bad[g] = fmt.Sprintf("goroutine %d, evaluation %d: %s is not a reading of the clock during the run", g, n, v)
								return
							}
						}
					}(g)
				}
				close(start)
				wg.Wait()
				if pass == 1 {
					atomic.StoreInt32(&h3.enabled, 0)
					h3Signature()
				} else {
					installEvalHooks()
				}
				for _, b := range bad {
					if b != "" {
						c.Failf("concurrent evaluation of an expression that calls a clock or random function fails", "expression=%q\n%s", src, b)
						return
					}
				}
			}
			c.AddEvals(2*G*reps-1, 2*G*reps-1)
			c.NonTrivial()
		},
	}
	sharedVals := &mon.Sub{
		Name:       "collections-sharing-their-value-objects",
		Serial:     true,
		Rule:       "evaluation does not modify variable values, so several collections may hold the very same value objects: expressions over arrays, strings, date-times and numbers (array equality and inequality, IN, indexing, Array(...) of arrays, concatenation, comparisons) are evaluated by 2, 4 and 16 goroutines sharing the calculator, each with its own collection object whose variables all point at ONE shared set of value variants; every result must equal the sequential one, the shared values must be unchanged afterwards, and the race detector must see no write to them; between evaluations the goroutines also call Equals, Clone, Length and GetByIndex directly on one shared 300-element array variant (against an equal copy and a copy with another first element); a case is one evaluation",
		Exhaustive: true, DistinctByGen: true, Floor: 50,
		Gen: func(emit func(string)) {
			for _, e := range []string{"a IN arr AND b NOT IN arr2", "7 IN nested[1] OR c IN arr", "arr = arr2", "arr <> sarr", "arr = arr", "Array(arr, arr2) = Array(arr, arr2)", "a IN arr", "arr IN Array(arr, arr2)", "arr[1] + arr2[0]", "s + t + s", "dt > ds", "If(arr = arr2, a, b)", "Contains(s, t)", "Max(a, b, l, x)", "-a + +b", "NOT p", "n IS NULL", "nested = nested", "nested[0] = arr"} {
				for _, g := range []int{2, 4, 16} {
					emit(e + "\x00" + strconv.Itoa(g) + "\x00" + strconv.Itoa(cfg.N(40, 800)))
				}
			}
		},
		Exec: func(c *mon.Case) {
			parts := strings.Split(c.Payload, "\x00")
			src := parts[0]
			G, _ := strconv.Atoi(parts[1])
			reps, _ := strconv.Atoi(parts[2])
			e := stdEnv(mon.NewRng(11, "c19-shared-values"))
			long := []Val{}
			for i := 0; i < 40; i++ {
				long = append(long, vInt(i))
			}
			e.names = append(e.names, "arr2", "nested")
			e.vals = append(e.vals, vArr(vInt(2), vInt(3), vInt(5)), vArr(vArr(vInt(2), vInt(3), vInt(5)), vArr(long...)))
			shared := make([]*variants.Variant, len(e.vals))
			for i, v := range e.vals {
				shared[i] = v.Variant()
				if v.T == "A" && len(v.E) > 0 {
					// arrays filled by indexed writes: their lists usually have spare capacity behind the last element
					grown := variants.VariantFromArray(nil)
					for k, el := range v.E {
						grown.SetByIndex(k, el.Variant())
					}
					shared[i] = grown
				}
			}
			mk := func() *variables.VariableCollection {
				vc := variables.NewVariableCollection()
				for i, n := range e.names {
					vc.Add(variables.NewVariable(n, shared[i]))
				}
				return vc
			}
			fresh := calculator.NewExpressionCalculator()
			if err := fresh.SetExpression(src); err != nil {
				c.Failf("expression rejected", "%q: %v", src, err)
				return
			}
			want := evalString(fresh, e.collection())
			big := func(first int) *variants.Variant {
				el := []*variants.Variant{variants.VariantFromInteger(first)}
				for i := 1; i < 300; i++ {
					el = append(el, variants.VariantFromInteger(i))
				}
				return variants.VariantFromArray(el)
			}
			bigA, bigSame, bigOther := big(0), big(0), big(-7)
			for pass := 1; pass <= 2; pass++ {
				calc := calculator.NewExpressionCalculator()
				calc.SetExpression(src)
				if pass == 2 {
					calculator.VerifEvalHook = nil
				} else {
					atomic.StoreInt32(&h3.enabled, 1)
				}
				bad := make([]string, G)
				start := make(chan struct{})
				var wg sync.WaitGroup
				for g := 0; g < G; g++ {
					wg.Add(1)
					go func(g int) {
						defer wg.Done()
						own := mk()
						<-start
						for n := 0; n < reps; n++ {
							if got := evalString(calc, own); got != want {
								bad[g] = fmt.Sprintf("goroutine %d, evaluation %d: sequential result %s, concurrent result %s", g, n, want, got)
								return
							}
							// reading methods of the shared values themselves, called directly
							if n%4 == 0 {
								if !bigA.Equals(bigSame) || bigA.Equals(bigOther) || bigA.Clone().Length() != bigA.Length() || bigA.GetByIndex(1).AsInteger() != 1 {
									bad[g] = fmt.Sprintf("goroutine %d, round %d: Equals / Clone / GetByIndex on a shared array variant (300 elements) give Equals(equal copy)=%v Equals(copy with another first element)=%v", g, n, bigA.Equals(bigSame), bigA.Equals(bigOther))
									return
								}
							}
						}
					}(g)
				}
				close(start)
				wg.Wait()
				if pass == 1 {
					atomic.StoreInt32(&h3.enabled, 0)
					h3Signature()
				} else {
					installEvalHooks()
				}
				for _, b := range bad {
					if b != "" {
						c.Failf("concurrent evaluation of one parsed expression differs from the sequential result", "expression=%q (collections share their value objects)\n%s", src, b)
						return
					}
				}
			}
			for i, v := range e.vals {
				if !snap(shared[i]).Same(v) {
					c.Failf("evaluation modified the compiled program, a variable value or the function table", "expression=%q: shared value %s is now %s", src, v, snap(shared[i]))
					return
				}
			}
			c.AddEvals(2*G*reps-1, 2*G*reps-1)
			c.NonTrivial()
		},
	}
	ownFuncs := &mon.Sub{
		Name:       "shared-calculator-own-function-collections",
		Serial:     true,
		Rule:       "one compiled expression calling f and g is evaluated by 2, 4 and 16 goroutines sharing the calculator, each passing a function collection of its own (three different definitions of f and g; every fourth goroutine passes none, so f is missing: an error naming it), with and without the hooks: every result must be the one computed sequentially for that collection on a fresh calculator, and the calculator's default functions must be the same object with the same 37 entries afterwards; a case is one evaluation",
		Exhaustive: true, DistinctByGen: true, Floor: 50,
		Gen: func(emit func(string)) {
			for _, e := range []string{"f(2) + g(3)", "f(g(2)) * 10 + f(1)", "Sum(f(1), g(1), a)", "If(f(0) > g(0), f(5), g(5)) - b", "f(a) + Max(g(b), 3)"} {
				for _, g := range []int{2, 4, 16} {
					emit(e + "\x00" + strconv.Itoa(g) + "\x00" + strconv.Itoa(cfg.N(60, 1000)))
				}
			}
		},
		Exec: func(c *mon.Case) {
			parts := strings.Split(c.Payload, "\x00")
			src := parts[0]
			G, _ := strconv.Atoi(parts[1])
			reps, _ := strconv.Atoi(parts[2])
			e := &env{names: []string{"a", "b"}, vals: []Val{vInt(7), vInt(3)}}
			mk := func(k int) functions.IFunctionCollection {
				if k == 3 {
					return nil
				}
				fc := functions.NewDefaultFunctionCollection()
				fc.Add(functions.NewDelegatedFunction("f", func(p []*variants.Variant, o variants.IVariantOperations) (*variants.Variant, error) {
					return variants.VariantFromInteger(p[0].AsInteger() + 1 + 100*k), nil
				}))
				fc.Add(functions.NewDelegatedFunction("g", func(p []*variants.Variant, o variants.IVariantOperations) (*variants.Variant, error) {
					return variants.VariantFromInteger(p[0].AsInteger() * (2 + 5*k)), nil
				}))
				return fc
			}
			evalWith := func(calc *calculator.ExpressionCalculator, vc *variables.VariableCollection, fc functions.IFunctionCollection) string {
				var r *variants.Variant
				var err error
				if p := mon.Try(func() { r, err = calc.EvaluateUsingVariablesAndFunctions(vc, fc) }); p != nil {
					return "PANIC " + p.Sig()
				}
				if err != nil {
					return "error " + errCode(err) + " " + err.Error()
				}
				return snap(r).String()
			}
			want := make([]string, 4)
			for k := range want {
				fresh := calculator.NewExpressionCalculator()
				fresh.SetExpression(src)
				want[k] = evalWith(fresh, e.collection(), mk(k))
			}
			for pass := 1; pass <= 2; pass++ {
				calc := calculator.NewExpressionCalculator()
				calc.SetExpression(src)
				defaults := calc.DefaultFunctions()
				if pass == 2 {
					calculator.VerifEvalHook = nil
				} else {
					atomic.StoreInt32(&h3.enabled, 1)
				}
				bad := make([]string, G)
				start := make(chan struct{})
				var wg sync.WaitGroup
				for g := 0; g < G; g++ {
					wg.Add(1)
					go func(g int) {
						defer wg.Done()
						k := g % 4
						own, fc := e.collection(), mk(k)
						<-start
						for n := 0; n < reps; n++ {
							if got := evalWith(calc, own, fc); got != want[k] {
								bad[g] = fmt.Sprintf("goroutine %d (function collection #%d), evaluation %d: sequential result %s, concurrent result %s", g, k, n, want[k], got)
								return
							}
						}
					}(g)
				}
				close(start)
				wg.Wait()
				if pass == 1 {
					atomic.StoreInt32(&h3.enabled, 0)
					h3Signature()
				} else {
					installEvalHooks()
				}
				for _, b := range bad {
					if b != "" {
						c.Failf("concurrent evaluation of one parsed expression differs from the sequential result", "expression=%q (every goroutine passes its own function collection)\n%s", src, b)
						return
					}
				}
				if calc.DefaultFunctions() != defaults || defaults.Length() != 37 || defaults.FindByName("f") != nil {
					c.Failf("evaluation modified the compiled program, a variable value or the function table", "expression=%q: after evaluations with function collections of the callers' own, the calculator's default functions are another object or hold %d entries", src, calc.DefaultFunctions().Length())
					return
				}
			}
			c.AddEvals(2*G*reps-1, 2*G*reps-1)
			c.NonTrivial()
		},
	}
	race := &mon.Sub{
		Name:   "race-detector-reports",
		Serial: true,
		Rule:   "after all concurrent workloads of this run: the number of 'WARNING: DATA RACE' blocks the Go race detector wrote to the GORACE log of this process must be zero (a binary not built with -race makes the run inconclusive)",
		Gen:    func(emit func(string)) { emit("read-race-log") },
		Exec: func(c *mon.Case) {
			c.NonTrivial()
			n, first := raceLogReports()
			mon.SetExtra("race_detector", map[string]any{"enabled": raceEnabled(), "reports": n, "H3_hook_calls": atomic.LoadInt64(&h3.calls), "H3_yields": atomic.LoadInt64(&h3.yields)})
			if n > 0 {
				c.Failf("the race detector reported a data race", "%d report(s); first:\n%s", n, first)
			}
		},
		Final: func(r *mon.SubReport) string {
			if !raceEnabled() {
				return "binary was not built with -race"
			}
			if n, _ := raceLogReports(); n < 0 {
				return "GORACE log_path not set"
			}
			if atomic.LoadInt64(&h3.calls) == 0 {
				return "hook H3 never fired"
			}
			return ""
		},
	}
	exprs.Final = func(r *mon.SubReport) string {
		if n := len(r.Tables["distinct-interleavings-of-evaluation-steps"]); n < cfg.N(50, 100) {
			return fmt.Sprintf("only %d distinct interleavings of evaluation steps observed", n)
		}
		return ""
	}
	args := &mon.Sub{
		Name:          "function-argument-purity",
		Serial:        true,
		Rule:          "every deterministic default function called through an expression with variables of every value type (Integer, Long, Float, Double, String, Boolean, Null, Array, TimeSpan, DateTime) passed directly as arguments, three evaluations in a row on one calculator and one collection: the results repeat and a snapshot of all variable values is unchanged (a function must not write into its arguments)",
		Exhaustive:    true,
		DistinctByGen: true,
		Floor:         30,
		Gen: func(emit func(string)) {
			vars := []string{"vi", "vl", "vf", "vd", "vs", "vb", "vn", "va", "vp", "vt"}
			for _, n := range c08Names {
				switch strings.ToUpper(n) {
				case "NOW", "TICKS", "RND", "RANDOM", "NULL":
					continue
				}
				for _, a := range vars {
					emit(n + "(" + a + ")")
					for _, b := range []string{"vi", "vd", "vs"} {
						emit(n + "(" + a + ", " + b + ")")
						emit(n + "(" + a + ", " + b + ", vd)")
					}
				}
			}
		},
		Exec: func(c *mon.Case) {
			c.NonTrivial()
			e := &env{names: []string{"vi", "vl", "vf", "vd", "vs", "vb", "vn", "va", "vp", "vt"},
				vals: []Val{vInt(16), vLong(81), vFloat(2.25), vDouble(16), vStr("16"), vBool(true), vNull(), vArr(vDouble(4), vInt(9)), vSpan(1500000000), vTime(time.Unix(86400*365, 0).UTC())}}
			calc := calculator.NewExpressionCalculator()
			if err := calc.SetExpression(c.Payload); err != nil {
				c.Count("rejected")
				return
			}
			vc := e.collection()
			before := calcSnapshot(calc, []*variables.VariableCollection{vc})
			first := evalString(calc, vc)
			for k := 0; k < 2; k++ {
				if got := evalString(calc, vc); got != first {
					c.Failf("repeated evaluation with equal inputs gives a different result", "expression=%q: first %s, later %s", c.Payload, first, got)
					return
				}
			}
			if after := calcSnapshot(calc, []*variables.VariableCollection{vc}); after != before {
				c.Failf("evaluation modified the compiled program, a variable value or the function table", "expression=%q\nbefore %s\nafter  %s", c.Payload, before, after)
			}
		},
	}
	return []*mon.Sub{exprs, tmpls, own, args, clock, sharedVals, ownFuncs, race}
}
