package checks

import (
	"errors"
	"fmt"
	"strconv"
	"strings"

	cerrors "github.com/pip-services3-gox/pip-services3-commons-gox/errors"
	"github.com/pip-services3-gox/pip-services3-expressions-gox/calculator"
	"github.com/pip-services3-gox/pip-services3-expressions-gox/calculator/functions"
	"github.com/pip-services3-gox/pip-services3-expressions-gox/calculator/variables"
	"github.com/pip-services3-gox/pip-services3-expressions-gox/mustache"
	"github.com/pip-services3-gox/pip-services3-expressions-gox/variants"

	"verifharness/model"
	"verifharness/mon"
)

// C03 — untrusted input never crashes the library: a result or an error, always.

func init() { mon.Register("C03", buildC03) }

type customErr struct{}

func (customErr) Error() string { return "boom: an error type of the application's own" }

var c03Alphabet = []string{"a", "1", ".", "-", "/", "*", "'", "\"", "(", ")", "[", "]", ",", "<", ">", "=", "{", "}", "#", "^", "!", " ", "\n", "é", "ш", "😀"}

func panicOrLoop(c *mon.Case, api string, p *mon.Panic, detail string) {
	if _, ok := p.Val.(mon.NoProgress); ok {
		c.Failf(api+": does not terminate (tokenizer main loop makes no progress)", "%s", detail)
		return
	}
	c.FailPanic(api, p)
}

// boundary assignment for the variables an expression uses, chosen by a seed
func boundaryEnv(names []string, seed uint64) *env {
	pool := valuePool()
	r := mon.NewRng(seed, "c03-env")
	e := &env{}
	for _, n := range names {
		e.names = append(e.names, n)
		e.vals = append(e.vals, mon.Pick(r, pool))
	}
	return e
}

func c03Expression(c *mon.Case, src string, e *env, seed uint64) {
	for _, mgrName := range []string{"unsafe", "safe"} {
		calc := calculator.NewExpressionCalculator()
		calc.SetVariantOperations(manager(mgrName))
		var err error
		if p := mon.Try(func() { err = calc.SetExpression(src) }); p != nil {
			panicOrLoop(c, "SetExpression", p, fmt.Sprintf("expression=%q", src))
			return
		}
		if err != nil {
			c.Count("expression-rejected")
			return
		}
		c.Count("expression-accepted")
		var names []string
		for _, v := range calc.DefaultVariables().GetAll() {
			names = append(names, v.Name())
		}
		envs := []*env{nil, boundaryEnv(names, seed), boundaryEnv(names, seed+1)}
		if e != nil {
			envs = append(envs, e)
		}
		for _, ev := range envs {
			var res *variants.Variant
			var vc variables.IVariableCollection
			if ev != nil {
				vc = ev.collection()
			}
			if p := mon.Try(func() { res, err = calc.EvaluateUsingVariables(vc) }); p != nil {
				panicOrLoop(c, "Evaluate", p, fmt.Sprintf("expression=%q manager=%s variables=%v", src, mgrName, ev))
				return
			}
			if (res == nil) == (err == nil) {
				c.Failf("Evaluate returns neither or both of result and error", "expression=%q manager=%s variables=%v -> result=%v err=%v", src, mgrName, ev, res, err)
				return
			}
			if s := snap(res); res != nil && s.T == "?" {
				c.Failf("Evaluate returns an inconsistent variant", "expression=%q variables=%v -> %s", src, ev, s)
				return
			}
			if err == nil {
				c.Count("evaluated-to-a-value")
			} else {
				c.Count("evaluated-to-an-error")
			}
		}
	}
}

func c03Template(c *mon.Case, src string, seed uint64) {
	t := mustache.NewMustacheTemplate()
	var err error
	if p := mon.Try(func() { err = t.SetTemplate(src) }); p != nil {
		panicOrLoop(c, "SetTemplate", p, fmt.Sprintf("template=%q", src))
		return
	}
	if err != nil {
		c.Count("template-rejected")
		return
	}
	c.Count("template-accepted")
	r := mon.NewRng(seed, "c03-map")
	m := map[string]string{}
	for k := range t.DefaultVariables() {
		if r.Bool() {
			m[k] = mon.Pick(r, tmplValuePool)
		}
	}
	for _, vars := range []map[string]string{nil, m, {}} {
		if p := mon.Try(func() { _, err = t.EvaluateWithVariables(vars) }); p != nil {
			panicOrLoop(c, "EvaluateWithVariables", p, fmt.Sprintf("template=%q variables=%q", src, vars))
			return
		}
	}
	// the same template on an instance that was cleared after use (and not touched in between)
	if p := mon.Try(func() {
		t.Clear()
		if err = t.SetTemplate(src); err == nil {
			_, err = t.Evaluate()
		}
	}); p != nil {
		panicOrLoop(c, "Clear, SetTemplate, Evaluate", p, fmt.Sprintf("template=%q", src))
		return
	}
	if err != nil {
		c.Failf("a template accepted on a new instance fails on a cleared one", "template=%q after Clear(): %v", src, err)
	}
}

func c03Tokenizers(c *mon.Case, src string, seed uint64) {
	r := mon.NewRng(seed, "c03-masks")
	for _, kind := range allTokenizers {
		for _, mask := range []int{0, 127, r.Intn(128)} {
			if _, p := runOptions(kind, src, mask); p != nil {
				panicOrLoop(c, kind+" tokenizer", p, fmt.Sprintf("options=%s input=%q", optNames(mask), src))
				return
			}
		}
	}
	for _, st := range c14States {
		qs, _ := c14State(st)
		for _, q := range []rune{'\'', '"'} {
			if p := mon.Try(func() { qs.DecodeString(src, q); qs.EncodeString(src, q) }); p != nil {
				c.FailPanic(st+" quote state", p)
				return
			}
		}
	}
}

// payload: "str" \x00 seed \x00 text   |   "expr" \x00 seed \x00 source \x00 env
func c03Exec(c *mon.Case) {
	parts := strings.SplitN(c.Payload, "\x00", 4)
	seed, _ := strconv.ParseUint(parts[1], 10, 64)
	switch parts[0] {
	case "str":
		s := parts[2]
		c03Expression(c, s, nil, seed)
		c03Template(c, s, seed)
		c03Tokenizers(c, s, seed)
		c.AddEvals(3, 0)
		if len(s) > 0 {
			c.NonTrivial()
		}
	case "expr":
		c03Expression(c, parts[2], decEnv(parts[3]), seed)
		c.NonTrivial()
	case "tmpl":
		c03Template(c, parts[2], seed)
		c03Tokenizers(c, parts[2], seed)
		c.NonTrivial()
	}
}

func mutateChars(r *mon.Rng, s string, n int) string {
	rs := []rune(s)
	pool := []rune("a1.-/*'\"()[],<>={}#^! \n\téш😀￿eE+%|&@_xN")
	for ; n > 0; n-- {
		if len(rs) == 0 {
			rs = append(rs, mon.Pick(r, pool))
			continue
		}
		k := r.Intn(len(rs))
		switch r.Intn(4) {
		case 0:
			rs = append(rs[:k], append([]rune{mon.Pick(r, pool)}, rs[k:]...)...)
		case 1:
			rs = append(rs[:k], rs[k+1:]...)
		case 2:
			rs[k] = mon.Pick(r, pool)
		case 3:
			j := r.Intn(len(rs))
			rs[k], rs[j] = rs[j], rs[k]
		}
	}
	return string(rs)
}

func buildC03(cfg *mon.Config) []*mon.Sub {
	installLoopMonitor()
	oracle := "oracle: every call (SetExpression and Evaluate with null, boundary-value and given variable collections under both managers; SetTemplate and EvaluateWithVariables; TokenizeBuffer of six tokenizer configurations under no, all and a seeded option set; Encode/DecodeString of the three quote states) returns normally - no panic, no trip of the H1 loop-progress monitor - and every evaluating call yields exactly one of a non-nil result or a non-nil error"
	maxL := cfg.N(3, 4)
	exh := &mon.Sub{
		Name: "exhaustive-small-strings", Rule: fmt.Sprintf("every string of length <= %d over the significant-character alphabet %q fed to all entry points; ", maxL, strings.Join(c03Alphabet, "")) + oracle + "; a case is one (string, entry-point family)",
		Exhaustive: true, DistinctByGen: true, Floor: 1000,
		Gen: func(emit func(string)) {
			n := 0
			enumStrings(c03Alphabet, maxL, func(parts []string) {
				n++
				emit("str\x00" + strconv.Itoa(n%1000) + "\x00" + joinParts(parts))
			})
		},
		Exec: c03Exec,
	}
	hostile := &mon.Sub{
		Name: "hostile-generated-expressions", Rule: "seeded expressions from the C01 generators (typed and shape trees, all operators, calls of default functions, indexes), printed in random style, 0..3 character-level mutations (insert, delete, replace, swap; alphabet incl. quotes, comment starts, astral and U+FFFF characters), evaluated under assignments that give every variable a random value of the 88-value boundary pool (any type: extremes, NaN, empty and non-ASCII strings, nulls, nested arrays, date-times, time spans, objects); " + oracle + "; distinct by hash",
		Floor: 1000,
		Gen: func(emit func(string)) {
			r := cfg.Rng("c03-hostile")
			g := &exprGen{r: r}
			pool := valuePool()
			for i := 0; i < cfg.N(15000, 1500000); i++ {
				var t *model.Node
				switch r.Intn(3) {
				case 0:
					t = g.shape(1 + r.Intn(5))
				case 1:
					t = g.typed(1+r.Intn(5), mon.Pick(r, []string{"int", "bool", "str", "num", "any"}))
				default:
					name := mon.Pick(r, c08Names)
					t = &model.Node{Op: "call", Lit: name}
					nargs := r.Intn(5)
					if r.Chance(1, 3) {
						nargs = r.Intn(41) // long argument lists
					}
					for k := nargs; k > 0; k-- {
						t.Kids = append(t.Kids, g.shape(r.Intn(2)))
					}
				}
				src := printings(t, r.Next()%100000)[r.Intn(4)]
				src = mutateChars(r, src, r.Intn(4))
				e := stdEnv(r)
				for k := range e.vals {
					if r.Chance(2, 3) {
						e.vals[k] = mon.Pick(r, pool)
					}
				}
				emit("expr\x00" + strconv.Itoa(r.Intn(100000)) + "\x00" + src + "\x00" + encEnv(e))
			}
		},
		Exec: c03Exec,
	}
	tmpl := &mon.Sub{
		Name: "hostile-generated-templates", Rule: "seeded templates from the C10 generator with 0..4 character-level mutations (so that tags are cut, braces unbalanced, sections unclosed, quotes opened), rendered under random variable maps, and tokenized by all tokenizers; " + oracle + "; distinct by hash",
		Floor: 1000,
		Gen: func(emit func(string)) {
			r := cfg.Rng("c03-tmpl")
			g := &tmplGen{r: r}
			for i := 0; i < cfg.N(10000, 800000); i++ {
				src := model.PrintTemplate(g.nodes(1+r.Intn(3), 1+r.Intn(8)))
				if r.Chance(1, 20) { // deep nesting
					n := 10 + r.Intn(60)
					src = strings.Repeat("{{#a}}x", n) + "y" + strings.Repeat("{{/a}}", n-r.Intn(2))
				}
				src = mutateChars(r, src, r.Intn(5))
				emit("tmpl\x00" + strconv.Itoa(r.Intn(100000)) + "\x00" + src)
			}
		},
		Exec: c03Exec,
	}
	rnd := &mon.Sub{
		Name: "random-fragment-strings", Rule: "seeded concatenations of lexeme fragments of all languages (expression, template, CSV, generic) and single significant characters, up to 40 parts, fed to all entry points; " + oracle + "; distinct by hash",
		Floor: 1000,
		Gen: func(emit func(string)) {
			r := cfg.Rng("c03-frag")
			extra := []string{"a + b", "Min(", "IS NULL", "NOT IN", "[0]", "<< -1", "/ 0", "% 0", "'é'", "\"ш\"", "{{#a}}", "{{/a}}", "{{^b}}", "{{{c}}}", "{{! x }}", "{{#if a}}", "1e309", "99999999999999999999", "0x10", "Choose(-1,1,2)", "Array()", "arr[5]", "s[9]", "Date(", "TimeSpan(1,2)", ")", "]", ","}
			for i := 0; i < cfg.N(15000, 1500000); i++ {
				var b strings.Builder
				for k := 1 + r.Intn(12); k > 0; k-- {
					switch r.Intn(3) {
					case 0:
						b.WriteString(mon.Pick(r, c03Alphabet))
					case 1:
						b.WriteString(mon.Pick(r, c04Fragments))
					default:
						b.WriteString(mon.Pick(r, extra))
					}
					if r.Chance(1, 3) {
						b.WriteString(" ")
					}
				}
				emit("str\x00" + strconv.Itoa(r.Intn(100000)) + "\x00" + b.String())
			}
		},
		Exec: c03Exec,
	}
	codepoints := &mon.Sub{
		Name: "every-code-point", Rule: "every Unicode code point of the Basic Multilingual Plane (surrogates excluded) and every 17th (quick: 257th) astral code point, alone, between letters, inside quotes and inside a mustache tag, fed to all entry points; " + oracle + "; a case is one (code point, entry-point family)",
		Exhaustive: true, DistinctByGen: true, Floor: 1000,
		Gen: func(emit func(string)) {
			step := 1
			for cp := 0; cp <= 0x10FFFF; cp += step {
				if cp >= 0xD800 && cp <= 0xDFFF {
					continue
				}
				if cp > 0xFFFF {
					step = cfg.N(257, 17)
				}
				if cfg.Quick() && cp > 0x3000 && cp < 0xF000 && cp%7 != 0 {
					continue // quick: CJK and private-use ranges thinned out; boundaries stay
				}
				ch := string(rune(cp))
				emit("str\x000\x00" + ch + "a" + ch + " 'q" + ch + "' {{" + ch + "}} \"" + ch + "\"")
			}
		},
		Exec: c03Exec,
	}
	corpus := corpusSub(cfg, "corpus", "crash", func(c *mon.Case, data string) {
		c.SetPayload("str\x000\x00" + data)
		c03Expression(c, data, nil, 0)
		c03Template(c, data, 0)
		c03Tokenizers(c, data, 0)
	})
	failing := &mon.Sub{
		Name: "failing-application-functions", Rule: "expressions that call a function registered by the application which fails in one of six ways (returns errors.New, a wrapped fmt.Errorf, an ApplicationError, an error value of another type; panics with a string; panics with an error), in 8 positions (alone, as operand, as argument of a default function, in a branch of If that is taken or not, twice), on a new calculator and again after a successful evaluation: Evaluate must return no result and a non-nil error whose Error() text can be read (no panic there either), and the calculator must evaluate correctly afterwards; enumerated",
		Exhaustive: true, DistinctByGen: true, Floor: 40,
		Gen: func(emit func(string)) {
			for kind := 0; kind < 6; kind++ {
				for _, e := range []string{"boom()", "boom() + 1", "1 + boom()", "Max(1, boom())", "If(a > 0, boom(), 3)", "boom() IS NULL", "boom() + boom()", "Sum(a, b, boom(), 4)"} {
					emit(strconv.Itoa(kind) + "\x00" + e)
				}
			}
		},
		Exec: func(c *mon.Case) {
			c.NonTrivial()
			parts := strings.SplitN(c.Payload, "\x00", 2)
			kind, _ := strconv.Atoi(parts[0])
			src := parts[1]
			calc := calculator.NewExpressionCalculator()
			calc.DefaultFunctions().Add(functions.NewDelegatedFunction("boom", func(p []*variants.Variant, o variants.IVariantOperations) (*variants.Variant, error) {
				switch kind {
				case 0:
					return nil, errors.New("boom: plain error")
				case 1:
					return nil, fmt.Errorf("boom: wrapped: %w", errors.New("inner"))
				case 2:
					return nil, cerrors.NewBadRequestError("", "BOOM", "boom: application error")
				case 3:
					return nil, customErr{}
				case 4:
					panic("boom: panic with a string")
				}
				panic(errors.New("boom: panic with an error"))
			}))
			env := &env{names: []string{"a", "b"}, vals: []Val{vInt(7), vInt(3)}}
			for round := 0; round < 2; round++ {
				var err error
				if p := mon.Try(func() { err = calc.SetExpression(src) }); p != nil || err != nil {
					c.Failf("an expression calling an application function is rejected", "%q: %v %v", src, p, err)
					return
				}
				var res *variants.Variant
				if p := mon.Try(func() { res, err = calc.EvaluateUsingVariables(env.collection()) }); p != nil {
					c.FailPanic("Evaluate (application function fails)", p)
					return
				}
				if res != nil || err == nil {
					c.Failf("Evaluate returns neither or both of result and error", "expression=%q with a failing application function (kind %d) -> result=%v err=%v", src, kind, snap(res), err)
					return
				}
				text := ""
				if p := mon.Try(func() { text = err.Error(); text += fmt.Sprint(err) }); p != nil || text == "" {
					c.Failf("the error returned for a failing application function cannot be read", "expression=%q (kind %d): reading the error panics or gives nothing: %v", src, kind, p)
					return
				}
				// and the calculator is still usable
				if p := mon.Try(func() {
					if err = calc.SetExpression("a * 10 + b"); err == nil {
						res, err = calc.EvaluateUsingVariables(env.collection())
					}
				}); p != nil || err != nil || snap(res).String() != "int(73)" {
					c.Failf("a calculator is unusable after an application function failed", "after %q (kind %d): a * 10 + b -> %v %v %v", src, kind, snap(res), err, p)
					return
				}
			}
		},
	}
	return []*mon.Sub{exh, hostile, tmpl, rnd, codepoints, failing, corpus}
}
