package checks

import (
	"fmt"
	"math"
	"strconv"
	"strings"
	"time"

	"github.com/pip-services3-gox/pip-services3-expressions-gox/variants"

	"verifharness/mon"
)

// C20 — variants hold what they were given: typed access, copies and equality.

func init() { mon.Register("C20", buildC20) }

// ---- model of a variant: type, scalar payload, own list of element values.
// Elements are treated as immutable values (the harness never mutates an
// element variant in place), so shallow versus deep copies are unobservable.
type mvar struct {
	val     Val  // scalar value or "A" with E = elements
	tainted bool // shares its list with another variant by Assign: index writes are don't-care
	origin  int  // id of the value it was last cloned/assigned from (for equality expectations)
}

type c20State struct {
	real  [3]*variants.Variant
	model [3]mvar
	lists [2][]*variants.Variant // caller-side lists L0, L1
	lmod  [2][]Val
	fresh int
}

func (s *c20State) freshElem() (Val, *variants.Variant) {
	s.fresh++
	v := vInt(1000 + s.fresh)
	return v, v.Variant()
}

// op codes, one byte each: see c20Ops
type c20Op struct {
	name string
	code byte
	i, j int
	arg  int
}

var c20Ops []c20Op

func init() {
	add := func(name string, code byte, i, j, arg int) { c20Ops = append(c20Ops, c20Op{name, code, i, j, arg}) }
	for i := 0; i < 3; i++ {
		for h := 0; h < 12; h++ {
			add(fmt.Sprintf("v%d=NewVariant(host%d)", i, h), 'n', i, 0, h)
		}
		for l := 0; l < 2; l++ {
			add(fmt.Sprintf("v%d.SetAsArray(L%d)", i, l), 'a', i, 0, l)
			add(fmt.Sprintf("v%d=VariantFromArray(L%d)", i, l), 'A', i, 0, l)
			add(fmt.Sprintf("v%d=NewVariant(L%d)", i, l), 'O', i, 0, l)
		}
		for j := 0; j < 3; j++ {
			if i != j {
				add(fmt.Sprintf("v%d.Assign(v%d)", i, j), 's', i, j, 0)
				add(fmt.Sprintf("v%d=v%d.Clone()", i, j), 'c', i, j, 0)
				add(fmt.Sprintf("v%d=NewVariant(v%d)", i, j), 'N', i, j, 0)
			}
		}
		for k := 0; k < 3; k++ {
			add(fmt.Sprintf("v%d.SetByIndex(%s)", i, []string{"0", "len", "len+2"}[k]), 'x', i, 0, k)
		}
		add(fmt.Sprintf("v%d.SetByIndex(len+2); v%d.GetByIndex(len).SetAsInteger(fresh)", i, i), 'g', i, 0, 0)
		add(fmt.Sprintf("v%d.Assign(v%d)", i, i), 's', i, i, 0)
		add(fmt.Sprintf("v%d.SetByIndex(0, equal value in a new object); v%d.GetByIndex(0).SetAsInteger(fresh)", i, i), 'e', i, 0, 0)
		add(fmt.Sprintf("v%d.SetLength(len+2)", i), 'l', i, 0, 2)
		add(fmt.Sprintf("v%d.SetLength(0)", i), 'l', i, 0, 0)
		add(fmt.Sprintf("v%d.Clear()", i), 'z', i, 0, 0)
		add(fmt.Sprintf("v%d.SetAsInteger(42)", i), 'I', i, 0, 0)
	}
	for l := 0; l < 2; l++ {
		add(fmt.Sprintf("L%d[0]=fresh", l), 'm', 0, 0, l)
		add(fmt.Sprintf("L%d=append(L%d,fresh)", l, l), 'p', 0, 0, l)
		add(fmt.Sprintf("L%d=append(L%d,NaN)", l, l), 'q', 0, 0, l)
		add(fmt.Sprintf("L%d=append(L%d,nil)", l, l), 'r', 0, 0, l)
	}
}

var c20Mgr = variants.NewTypeUnsafeVariantOperations()

func c20Host(h int) (any, Val) {
	switch h {
	case 0:
		return 5, vInt(5)
	case 1:
		return int64(7), vLong(7)
	case 2:
		return math.NaN(), vDouble(math.NaN())
	case 3:
		return "s", vStr("s")
	case 4:
		return nil, vNull()
	case 5:
		return true, vBool(true)
	case 6:
		return float32(2.5), vFloat(2.5)
	case 8:
		return int64(math.MaxInt64), vLong(math.MaxInt64)
	case 9:
		return int64(math.MaxInt64 - 1), vLong(math.MaxInt64 - 1)
	case 10:
		return 1<<53 + 1, vInt(1<<53 + 1)
	case 11:
		return 1 << 53, vInt(1 << 53)
	}
	return "xyz", vStr("xyz")
}

// expected Equals of two model values: 1 true, 0 false, -1 not determined by the statement
func modelEquals(a, b Val) int {
	if a.T == "N" || b.T == "N" {
		if a.T == b.T {
			return 1
		}
		return 0
	}
	if a.T != b.T {
		return 0
	}
	switch a.T {
	case "F":
		if a.Float() == b.Float() {
			return 1
		}
		return 0
	case "D":
		if a.Double() == b.Double() {
			return 1
		}
		return 0
	case "T":
		if a.Same(b) {
			return -1 // same instant and zone, but location pointers may differ
		}
		return -1
	case "O":
		if a.Same(b) {
			return 1
		}
		return 0
	case "A":
		if len(a.E) != len(b.E) {
			return 0
		}
		res := 1
		for i := range a.E {
			switch modelEquals(a.E[i], b.E[i]) {
			case 0:
				return 0
			case -1:
				res = -1
			}
		}
		return res
	}
	if a.Same(b) {
		return 1
	}
	return 0
}

func hasNaN(v Val) bool {
	switch v.T {
	case "F":
		return v.Float() != v.Float()
	case "D":
		return v.Double() != v.Double()
	case "A":
		for _, e := range v.E {
			if hasNaN(e) {
				return true
			}
		}
	}
	return false
}

func c20Observe(c *mon.Case, s *c20State, trace []string) bool {
	for i := 0; i < 3; i++ {
		if s.real[i] == nil {
			continue
		}
		var got Val
		if p := mon.Try(func() { got = snap(s.real[i]) }); p != nil {
			c.FailPanic("reading a variant", p)
			return false
		}
		want := s.model[i].val
		// A variant that shares its list with another one by Assign is still observed: the harness never
		// writes into such a list in place, and replacing the value of one side must not reach the other.
		if !got.Same(want) {
			what := "variant does not hold the value it was given"
			if want.T == "A" || got.T == "A" {
				what = "array variant does not hold its own copy of the list (or index writes misbehave)"
			}
			c.Failf(what, "after [%s]: v%d is %s, model says %s", strings.Join(trace, "; "), i, got, want)
			return false
		}
		var isNull, isEmpty bool
		var length int
		if p := mon.Try(func() { isNull, isEmpty, length = s.real[i].IsNull(), s.real[i].IsEmpty(), s.real[i].Length() }); p != nil {
			c.FailPanic("IsNull/IsEmpty/Length", p)
			return false
		}
		wl := 0
		if want.T == "A" {
			wl = len(want.E)
		}
		// text form and character access must follow the value the variant holds now
		if want.T != "A" && want.T != "T" {
			var text, wantText, first, wantFirst string
			if p := mon.Try(func() {
				text, wantText = s.real[i].String(), want.Variant().String()
				if want.T == "S" && want.V != "" {
					r1, e1 := c20Mgr.GetElement(s.real[i], variants.VariantFromInteger(0))
					r2, e2 := c20Mgr.GetElement(want.Variant(), variants.VariantFromInteger(0))
					first, wantFirst = fmt.Sprint(snap(r1), e1), fmt.Sprint(snap(r2), e2)
				}
			}); p != nil {
				c.FailPanic("String()/GetElement", p)
				return false
			}
			if text != wantText || first != wantFirst {
				c.Failf("text form or character access does not follow the value the variant holds", "after [%s]: v%d=%s String()=%q (a fresh variant gives %q) [0]=%s (fresh: %s)", strings.Join(trace, "; "), i, want, text, wantText, first, wantFirst)
				return false
			}
		}
		if isNull != (want.T == "N") || isEmpty != (want.T == "N") || length != wl {
			c.Failf("IsNull/IsEmpty/Length disagree with the held value", "after [%s]: v%d=%s IsNull=%v IsEmpty=%v Length=%d", strings.Join(trace, "; "), i, want, isNull, isEmpty, length)
			return false
		}
	}
	// equality: total, symmetric, and as the model says where determined
	for i := 0; i < 3; i++ {
		for j := 0; j < 3; j++ {
			if s.real[i] == nil || s.real[j] == nil {
				continue
			}
			var eij, eji bool
			if p := mon.Try(func() { eij = s.real[i].Equals(s.real[j]); eji = s.real[j].Equals(s.real[i]) }); p != nil {
				c.FailPanic("Variant.Equals", p)
				return false
			}
			if eij != eji {
				c.Failf("Equals is not symmetric", "after [%s]: v%d.Equals(v%d)=%v but v%d.Equals(v%d)=%v", strings.Join(trace, "; "), i, j, eij, j, i, eji)
				return false
			}
			if want := modelEquals(s.model[i].val, s.model[j].val); want >= 0 && (want == 1) != eij {
				c.Failf("Equals disagrees with value equality", "after [%s]: v%d=%s v%d=%s Equals=%v", strings.Join(trace, "; "), i, s.model[i].val, j, s.model[j].val, eij)
				return false
			}
		}
	}
	return true
}

func c20Run(c *mon.Case, ops string) {
	s := &c20State{}
	for l := 0; l < 2; l++ {
		n := 2 * l // L0 empty, L1 two elements; both with spare capacity, as a caller's list usually has
		s.lists[l] = make([]*variants.Variant, 0, 8)
		for k := 0; k < n; k++ {
			v, r := s.freshElem()
			s.lists[l] = append(s.lists[l], r)
			s.lmod[l] = append(s.lmod[l], v)
		}
	}
	var trace []string
	arrays := false
	for step := 0; step < len(ops); step++ {
		op := c20Ops[int(ops[step])%len(c20Ops)]
		i, j := op.i, op.j
		skip := false
		p := mon.Try(func() {
			switch op.code {
			case 'n':
				h, m := c20Host(op.arg)
				s.real[i] = variants.NewVariant(h)
				s.model[i] = mvar{val: m}
			case 'O':
				s.real[i] = variants.NewVariant(s.lists[op.arg])
				s.model[i] = mvar{val: vArr(s.lmod[op.arg]...)}
				arrays = true
			case 'a', 'A':
				if op.code == 'a' {
					if s.real[i] == nil {
						s.real[i] = variants.EmptyVariant()
					}
					s.real[i].SetAsArray(s.lists[op.arg])
				} else {
					s.real[i] = variants.VariantFromArray(s.lists[op.arg])
				}
				s.model[i] = mvar{val: vArr(s.lmod[op.arg]...)}
				arrays = true
			case 's':
				if s.real[i] == nil || s.real[j] == nil {
					skip = true
					return
				}
				s.real[i].Assign(s.real[j])
				s.model[i] = mvar{val: s.model[j].val}
				if s.model[j].val.T == "A" {
					s.model[i].tainted, s.model[j].tainted = true, true
				}
			case 'c', 'N':
				if s.real[j] == nil {
					skip = true
					return
				}
				if op.code == 'c' {
					s.real[i] = s.real[j].Clone()
				} else {
					s.real[i] = variants.NewVariant(s.real[j])
				}
				s.model[i] = mvar{val: Val{T: s.model[j].val.T, V: s.model[j].val.V, E: append([]Val{}, s.model[j].val.E...)}}
				if s.model[j].tainted && s.model[j].val.T == "A" {
					// cloning a variant whose list content is not determined: resynchronise the model from the clone
					s.model[i].val = snap(s.real[i])
				} else if !hasNaN(s.model[j].val) {
					// a clone equals its original
					if !s.real[i].Equals(s.real[j]) || !s.real[j].Equals(s.real[i]) {
						panic(fmt.Sprintf("clone does not equal its original (%s)", s.model[j].val))
					}
				}
			case 'x', 'l':
				if s.real[i] == nil || s.model[i].val.T != "A" || s.model[i].tainted {
					skip = true
					return
				}
				n := len(s.model[i].val.E)
				if op.code == 'x' {
					k := []int{0, n, n + 2}[op.arg]
					v, r := s.freshElem()
					s.real[i].SetByIndex(k, r)
					if s.real[i].GetByIndex(k) != r {
						panic("GetByIndex does not return the element object written by SetByIndex")
					}
					for len(s.model[i].val.E) <= k {
						s.model[i].val.E = append(s.model[i].val.E, vNull())
					}
					s.model[i].val.E[k] = v
				} else {
					want := op.arg
					if want > 0 {
						want = n + 2
					}
					s.real[i].SetLength(want)
					for len(s.model[i].val.E) < want {
						s.model[i].val.E = append(s.model[i].val.E, vNull())
					}
					if want < n {
						skip = true // shrinking is not described by the statement
						s.model[i].val = snap(s.real[i])
					}
				}
			case 'g':
				// grow by two padded slots and one written slot, then mutate the first padded slot in
				// place: the padded slots are new objects owned by this array alone, so each must be its own null
				if s.real[i] == nil || s.model[i].val.T != "A" || s.model[i].tainted {
					skip = true
					return
				}
				n := len(s.model[i].val.E)
				v, r := s.freshElem()
				s.real[i].SetByIndex(n+2, r)
				s.model[i].val.E = append(s.model[i].val.E, vNull(), vNull(), v)
				s.fresh++
				s.real[i].GetByIndex(n).SetAsInteger(2000 + s.fresh)
				s.model[i].val.E[n] = vInt(2000 + s.fresh)
			case 'z':
				if s.real[i] == nil {
					skip = true
					return
				}
				s.real[i].Clear()
				s.model[i] = mvar{val: vNull()}
			case 'I':
				if s.real[i] == nil {
					skip = true
					return
				}
				s.real[i].SetAsInteger(42)
				s.model[i] = mvar{val: vInt(42)}
			case 'm':
				if len(s.lists[op.arg]) == 0 {
					skip = true
					return
				}
				v, r := s.freshElem()
				s.lists[op.arg][0] = r
				s.lmod[op.arg][0] = v
			case 'p':
				v, r := s.freshElem()
				s.lists[op.arg] = append(s.lists[op.arg], r)
				s.lmod[op.arg] = append(s.lmod[op.arg], v)
			case 'r':
				// a list position that holds no variant at all: it stays that way (growing the array pads with nulls
				// behind it, it does not fill it in)
				s.lists[op.arg] = append(s.lists[op.arg], nil)
				s.lmod[op.arg] = append(s.lmod[op.arg], Val{T: "nil"})
			case 'q':
				v := vDouble(math.NaN())
				s.lists[op.arg] = append(s.lists[op.arg], v.Variant())
				s.lmod[op.arg] = append(s.lmod[op.arg], v)
			case 'e':
				// the slot is overwritten with a new object that holds an equal value; the array must now hold THAT
				// object: changing it in place shows in this array and in no other variant
				if s.real[i] == nil || s.model[i].val.T != "A" || s.model[i].tainted || len(s.model[i].val.E) == 0 || s.model[i].val.E[0].T == "A" || s.model[i].val.E[0].T == "nil" {
					skip = true
					return
				}
				r := s.model[i].val.E[0].Variant()
				s.real[i].SetByIndex(0, r)
				if s.real[i].GetByIndex(0) != r {
					panic("GetByIndex does not return the element object written by SetByIndex")
				}
				s.fresh++
				r.SetAsInteger(3000 + s.fresh)
				s.model[i].val.E = append([]Val{}, s.model[i].val.E...)
				s.model[i].val.E[0] = vInt(3000 + s.fresh)
			}
		})
		trace = append(trace, op.name)
		if p != nil {
			if msg, ok := p.Val.(string); ok && strings.HasPrefix(msg, "clone does not equal") {
				c.Failf("a clone does not equal its original", "after [%s]: %s", strings.Join(trace, "; "), msg)
			} else if msg, ok := p.Val.(string); ok && strings.HasPrefix(msg, "GetByIndex does not return") {
				c.Failf("array variant does not hold its own copy of the list (or index writes misbehave)", "after [%s]: %s", strings.Join(trace, "; "), msg)
			} else {
				c.FailPanic(op.name[strings.Index(op.name, ".")+1:], p)
			}
			return
		}
		if skip {
			trace[len(trace)-1] += " (skipped)"
			continue
		}
		if !c20Observe(c, s, trace) {
			return
		}
	}
	if arrays {
		c.NonTrivial()
	}
}

func c20Sample(payload string) any {
	var d []string
	for i := 0; i < len(payload); i++ {
		d = append(d, c20Ops[int(payload[i])%len(c20Ops)].name)
	}
	return strings.Join(d, "; ")
}

func buildC20(cfg *mon.Config) []*mon.Sub {
	hostRule := "every supported Go host type at boundary values through NewVariant/SetAsObject and the typed constructors and setters: the variant reports the matching type and returns the value unchanged (bit-exact for floats, same instant and zone for times); caller-side list mutation is invisible; a comparable struct and an uncomparable map become Object; Equals on each is total and reflexive except NaN"
	host := &mon.Sub{
		Name: "host-values", Rule: hostRule, Exhaustive: true, DistinctByGen: true, Floor: 20,
		Gen: func(emit func(string)) {
			for i := 0; i < len(c20HostCases()); i++ {
				emit(fmt.Sprint(i))
			}
		},
		Exec: func(c *mon.Case) {
			var idx int
			fmt.Sscan(c.Payload, &idx)
			hc := c20HostCases()[idx]
			c.NonTrivial()
			var v *variants.Variant
			if p := mon.Try(func() { v = variants.NewVariant(hc.host) }); p != nil {
				c.FailPanic("NewVariant", p)
				return
			}
			got := snap(v)
			if hc.want.T == "O" {
				if got.T != "O" {
					c.Failf("host value of another type is not held as Object", "%s: NewVariant(%T) has type %s", hc.name, hc.host, got)
				}
			} else if !got.Same(hc.want) {
				c.Failf("variant built from a host value does not report the matching type and value", "%s: NewVariant(%T %v) -> %s, want %s", hc.name, hc.host, hc.host, got, hc.want)
				return
			}
			if t, ok := hc.host.(time.Time); ok {
				// a time comes back as the very value that went in (also one read from the clock, which carries a monotonic reading),
				// whichever constructor took it
				if back := v.AsDateTime(); back != t || !variants.VariantFromDateTime(t).Equals(v) || !v.Equals(variants.VariantFromDateTime(t)) {
					c.Failf("variant built from a host value does not report the matching type and value", "%s: NewVariant(time %v).AsDateTime() == original: %v; equals VariantFromDateTime of the same value: %v", hc.name, t, back == t, variants.VariantFromDateTime(t).Equals(v))
					return
				}
			}
			var e1, e2 bool
			if p := mon.Try(func() { e1 = v.Equals(v.Clone()); e2 = v.Clone().Equals(v) }); p != nil {
				c.FailPanic("Variant.Equals", p)
				return
			}
			if e1 != e2 || (e1 != !hasNaN(hc.want) && hc.want.T != "T") {
				c.Failf("a clone does not equal its original", "%s: v.Equals(clone)=%v clone.Equals(v)=%v for %s", hc.name, e1, e2, got)
			}
		},
	}
	depth := cfg.N(4, 5)
	exh := &mon.Sub{
		Name:          "operation-sequences-exhaustive",
		Rule:          fmt.Sprintf("every sequence of %d operations over %d concrete operations on three live variants and two caller-side lists (construct from 12 host values, among them neighbouring integers beyond 2^53, SetAsArray/VariantFromArray from a caller list, Assign (also of a variant to itself), Clone, NewVariant(variant), SetByIndex at 0/len/len+2, SetByIndex(0) with an equal value in a new object followed by an in-place change of that object, SetLength, Clear, SetAsInteger, caller-side list element replacement and append (fresh integers, NaN, and a position holding no variant at all); after every step all live variants are read back (type, accessor, Length, elements, IsNull, IsEmpty) and compared with the value model, Equals is evaluated on all pairs (total, symmetric, equal to model equality), a clone must equal its original; non-trivial = the sequence built an array", depth, len(c20Ops)),
		Exhaustive:    true,
		DistinctByGen: true,
		Floor:         1000,
		Gen: func(emit func(string)) {
			// restrict the exhaustive scope to variants v0,v1 and list L1 to keep it finite: ops touching v2/L0 appear in the random sub-check
			var idx []byte
			for k, op := range c20Ops {
				if op.i == 2 || op.j == 2 || ((op.code == 'a' || op.code == 'A' || op.code == 'O' || op.code == 'm' || op.code == 'p') && op.arg == 0 && op.code != 'O') || (op.code == 'O' && op.arg == 1) || (op.code == 'n' && op.arg > 3 && op.arg != 7) {
					continue
				}
				idx = append(idx, byte(k))
			}
			buf := make([]byte, depth)
			var rec func(d int)
			rec = func(d int) {
				if d == depth {
					emit(string(buf))
					return
				}
				for _, k := range idx {
					buf[d] = k
					rec(d + 1)
				}
			}
			rec(0)
		},
		Exec: func(c *mon.Case) { c20Run(c, c.Payload) }, Sample: c20Sample,
	}
	rnd := &mon.Sub{
		Name: "operation-sequences-random", Rule: "seeded random sequences of up to 40 of the same operations on all three variants and both lists, same oracle; distinct by hash",
		Floor: 1000,
		Gen: func(emit func(string)) {
			r := cfg.Rng("c20-random")
			for i := 0; i < cfg.N(30000, 500000); i++ {
				b := make([]byte, 2+r.Intn(39))
				for k := range b {
					b[k] = byte(r.Intn(len(c20Ops)))
				}
				emit(string(b))
			}
		},
		Exec: func(c *mon.Case) { c20Run(c, c.Payload) }, Sample: c20Sample,
	}
	large := &mon.Sub{
		Name: "large-arrays-and-nested-equality", Rule: "for n in 0..70, 127..130, 255..258: an array of n elements, its clone, an indexed write one and two past the end and SetLength(n+3) on the clone and on the original (every slot read back: padded slots must be null variants, the other side untouched); nested arrays that contain the same row object twice compared with arrays that differ only in the second row (Equals false in both directions, and equal to their clones)",
		Exhaustive: true, DistinctByGen: true, Floor: 20,
		Gen: func(emit func(string)) {
			for n := 0; n <= 70; n++ {
				emit(strconv.Itoa(n))
			}
			for _, n := range []int{127, 128, 129, 130, 255, 256, 257, 258} {
				emit(strconv.Itoa(n))
			}
		},
		Exec: func(c *mon.Case) {
			c.NonTrivial()
			n, _ := strconv.Atoi(c.Payload)
			mk := func() ([]*variants.Variant, Val) {
				l := make([]*variants.Variant, n)
				m := vArr()
				for i := range l {
					l[i] = variants.VariantFromInteger(i)
					m.E = append(m.E, vInt(i))
				}
				return l, m
			}
			for _, skip := range []int{0, 1, 2} {
				for _, onClone := range []bool{true, false} {
					l, m := mk()
					orig := variants.VariantFromArray(l)
					var clone *variants.Variant
					if p := mon.Try(func() { clone = orig.Clone() }); p != nil {
						c.FailPanic("Clone", p)
						return
					}
					target, other := clone, orig
					if !onClone {
						target, other = orig, clone
					}
					want := vArr(m.E...)
					if p := mon.Try(func() {
						target.SetByIndex(n+skip, variants.VariantFromString("w"))
						for len(want.E) < n+skip {
							want.E = append(want.E, vNull())
						}
						want.E = append(want.E, vStr("w"))
						target.SetLength(n + skip + 3)
						want.E = append(want.E, vNull(), vNull())
					}); p != nil {
						c.FailPanic("SetByIndex/SetLength", p)
						return
					}
					if got := snap(target); !got.Same(want) {
						c.Failf("indexed write past the end does not grow the array with nulls", "n=%d write at n+%d on the %s: got %s, want %s", n, skip, map[bool]string{true: "clone", false: "original"}[onClone], got, want)
						return
					}
					if got := snap(other); !got.Same(m) {
						c.Failf("array variant does not hold its own copy of the list (or index writes misbehave)", "n=%d: writing to the %s changed the other side: %s", n, map[bool]string{true: "clone", false: "original"}[onClone], got)
						return
					}
				}
			}
			// nested equality with a shared row
			row := variants.VariantFromArray([]*variants.Variant{variants.VariantFromInteger(1), variants.VariantFromInteger(n)})
			left := variants.VariantFromArray([]*variants.Variant{row, row})
			r1 := variants.VariantFromArray([]*variants.Variant{variants.VariantFromInteger(1), variants.VariantFromInteger(n)})
			r2 := variants.VariantFromArray([]*variants.Variant{variants.VariantFromInteger(1), variants.VariantFromInteger(n + 1)})
			right := variants.VariantFromArray([]*variants.Variant{r1, r2})
			same := variants.VariantFromArray([]*variants.Variant{r1, r1.Clone()})
			var e1, e2, e3, e4 bool
			if p := mon.Try(func() { e1, e2, e3, e4 = left.Equals(right), right.Equals(left), left.Equals(same), same.Equals(left) }); p != nil {
				c.FailPanic("Variant.Equals", p)
				return
			}
			if e1 || e2 || !e3 || !e4 {
				c.Failf("Equals disagrees with value equality", "[[1,%d],[1,%d]] (one shared row object) vs [[1,%d],[1,%d]]: %v / %v; vs an equal array of separate rows: %v / %v", n, n, n, n+1, e1, e2, e3, e4)
			}
		},
	}
	return []*mon.Sub{host, exh, rnd, large}
}

type hostCase struct {
	name string
	host any
	want Val
}

type cmpStruct struct{ A, B int }

func c20HostCases() []hostCase {
	t1 := time.Date(1975, 4, 8, 1, 2, 3, 4, time.FixedZone("", 7200))
	now := time.Now()
	l := []*variants.Variant{variants.VariantFromInteger(1), variants.VariantFromString("a")}
	hc := []hostCase{
		{"nil", nil, vNull()},
		{"int 0", 0, vInt(0)}, {"int max", math.MaxInt64, vInt(math.MaxInt64)}, {"int min", math.MinInt64, vInt(math.MinInt64)},
		{"int32 min", int32(math.MinInt32), vInt(math.MinInt32)}, {"int32 max", int32(math.MaxInt32), vInt(math.MaxInt32)},
		{"uint 0", uint(0), vLong(0)}, {"uint big", uint(1 << 62), vLong(1 << 62)},
		{"uint32 max", uint32(math.MaxUint32), vLong(math.MaxUint32)},
		{"int64 min", int64(math.MinInt64), vLong(math.MinInt64)}, {"int64 max", int64(math.MaxInt64), vLong(math.MaxInt64)},
		{"float32 max", float32(math.MaxFloat32), vFloat(math.MaxFloat32)}, {"float32 -0", float32(math.Copysign(0, -1)), vFloat(float32(math.Copysign(0, -1)))}, {"float32 NaN", float32(math.NaN()), vFloat(float32(math.NaN()))},
		{"float64 tiny", math.SmallestNonzeroFloat64, vDouble(math.SmallestNonzeroFloat64)}, {"float64 NaN", math.NaN(), vDouble(math.NaN())}, {"float64 -Inf", math.Inf(-1), vDouble(math.Inf(-1))},
		{"bool true", true, vBool(true)}, {"bool false", false, vBool(false)},
		{"string empty", "", vStr("")}, {"string unicode", "é😀", vStr("é😀")},
		{"time", t1, vTime(t1)}, {"time zero", time.Time{}, vTime(time.Time{})}, {"time read from the clock", now, vTime(now)}, {"time read from the clock, UTC", now.UTC(), vTime(now.UTC())},
		{"duration", 90 * time.Second, vSpan(90 * time.Second)}, {"duration min", time.Duration(math.MinInt64), vSpan(math.MinInt64)},
		{"list", l, vArr(vInt(1), vStr("a"))}, {"empty list", []*variants.Variant{}, vArr()},
		{"variant", variants.VariantFromLong(9), vLong(9)}, {"array variant", variants.VariantFromArray(l), vArr(vInt(1), vStr("a"))},
		{"comparable struct", cmpStruct{1, 2}, Val{T: "O"}}, {"pointer", &cmpStruct{1, 2}, Val{T: "O"}},
		{"uncomparable map", map[string]int{"a": 1}, Val{T: "O"}}, {"uncomparable slice", []int{1, 2}, Val{T: "O"}},
		{"struct with a slice field", struct {
			ID    int
			Items []string
		}{1, []string{"a"}}, Val{T: "O"}},
		{"array of maps", [1]map[string]int{{"a": 1}}, Val{T: "O"}},
	}
	return hc
}
