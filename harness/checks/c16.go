package checks

import (
	"fmt"
	"sort"
	"strings"

	rio "github.com/pip-services3-gox/pip-services3-expressions-gox/io"
	"github.com/pip-services3-gox/pip-services3-expressions-gox/tokenizers"
	"github.com/pip-services3-gox/pip-services3-expressions-gox/tokenizers/generic"

	"verifharness/mon"
)

// C16 — symbol tables return the longest registered symbol with its own type.

func init() { mon.Register("C16", buildC16) }

var c16Alphabets = map[string][]string{
	"ascii": {"<", "=", ">"},
	"wide":  {"a", "ш", "€"},
}

// token types of registered symbols: application-defined, also far beyond one byte
// every fourth symbol gets type 0 (the value of the Unknown token type), which a table must store like any other
func c16Type(i int) int {
	if i%4 == 2 {
		return 0
	}
	return 100 + i*997
}

func c16Inputs(alpha []string, extra string, maxLen int) []string {
	var out []string
	a := append(append([]string{}, alpha...), extra)
	enumStrings(a, maxLen, func(parts []string) {
		if len(parts) > 0 {
			out = append(out, joinParts(parts))
		}
	})
	return out
}

// payload: symbols (registration order, \x01 separated) \x00 alphabet \x00 [inputs \x01 separated]
func c16Exec(c *mon.Case) {
	parts := strings.SplitN(c.Payload, "\x00", 3)
	syms := strings.Split(parts[0], "\x01")
	alpha := c16Alphabets[parts[1]]
	var inputs []string
	family := len(parts) < 3 || parts[2] == ""
	if family {
		in := c16Inputs(alpha, "x", 4)
		inputs = append(inputs, in...)
		for i := len(in) - 1; i >= 0; i-- { // second pass, reversed: every input is read again after all the others
			inputs = append(inputs, in[i])
		}
	} else {
		inputs = strings.Split(parts[2], "\x01")
	}
	root := generic.NewSymbolRootNode()
	types := map[string]int{}
	for i, s := range syms {
		root.Add(s, c16Type(i))
		types[s] = c16Type(i)
	}
	multi := false
	for _, s := range syms {
		if len([]rune(s)) > 1 {
			multi = true
		}
	}
	sorted := append([]string{}, syms...)
	sort.Slice(sorted, func(i, j int) bool { return len(sorted[i]) > len(sorted[j]) })
	for n, in := range inputs {
		wantText, wantType := string([]rune(in)[:1]), tokenizers.Symbol
		for _, s := range sorted {
			if strings.HasPrefix(in, s) {
				wantText, wantType = s, types[s]
				break
			}
		}
		sc := rio.NewStringScanner(in)
		var t *tokenizers.Token
		p := mon.Try(func() { t = root.NextToken(sc) })
		narrow := func() {
			if family {
				c.SetPayload(parts[0] + "\x00" + parts[1] + "\x00" + strings.Join(inputs[:n+1], "\x01"))
			}
		}
		if p != nil {
			narrow()
			c.FailPanic("SymbolRootNode.NextToken", p)
			return
		}
		var rest strings.Builder
		for ch := sc.Read(); ch != -1; ch = sc.Read() {
			rest.WriteRune(ch)
		}
		wantRest := in[len(wantText):]
		if t.Value() != wantText || t.Type() != wantType || rest.String() != wantRest {
			narrow()
			kind := "wrong symbol text, type or consumed length"
			if n >= len(inputs)/2 && family {
				kind += " (on a repeated read)"
			}
			if parts[1] == "wide" {
				kind += " [characters above U+00FF]"
			}
			c.Failf(kind, "registered=%q (types 100+997*index or 0, in this order) input=%q (read #%d on this table): got %s%q rest=%q, want type %d %q rest=%q",
				syms, in, n+1, tokTypeName(t.Type()), t.Value(), rest.String(), wantType, wantText, wantRest)
			return
		}
	}
	if family {
		if multi {
			c.AddEvals(len(inputs)-1, len(inputs)-1)
		} else {
			c.AddEvals(len(inputs)-1, 0)
		}
	}
	if multi {
		c.NonTrivial()
	}
}

// c16IncrExec: symbols are registered one at a time and the same inputs are read after every registration,
// so that anything remembered from reads before a registration (misses, fallbacks) would show.
// payload: symbols \x01 separated \x00 inputs \x01 separated
func c16IncrExec(c *mon.Case) {
	parts := strings.SplitN(c.Payload, "\x00", 2)
	syms := strings.Split(parts[0], "\x01")
	inputs := strings.Split(parts[1], "\x01")
	root := generic.NewSymbolRootNode()
	types := map[string]int{}
	var sorted []string
	reads := 0
	read := func(in string, registered int) bool {
		if in == "" {
			return true
		}
		reads++
		wantText, wantType := string([]rune(in)[:1]), tokenizers.Symbol
		for _, k := range sorted {
			if strings.HasPrefix(in, k) {
				wantText, wantType = k, types[k]
				break
			}
		}
		sc := rio.NewStringScanner(in)
		var t *tokenizers.Token
		if p := mon.Try(func() { t = root.NextToken(sc) }); p != nil {
			c.FailPanic("SymbolRootNode.NextToken", p)
			return false
		}
		var rest strings.Builder
		for ch := sc.Read(); ch != -1; ch = sc.Read() {
			rest.WriteRune(ch)
		}
		if t.Value() != wantText || t.Type() != wantType || rest.String() != in[len(wantText):] {
			c.Failf("wrong symbol text, type or consumed length after a further registration", "registered so far=%q (types 100+997*index or 0; inputs are read between registrations, the symbol about to be registered last and again first); input=%q: got %s%q rest=%q, want type %d %q rest=%q",
				syms[:registered], in, tokTypeName(t.Type()), t.Value(), rest.String(), wantType, wantText, in[len(wantText):])
			return false
		}
		return true
	}
	for i, s := range syms {
		// the last thing read before a registration is the symbol about to be registered (a miss somewhere along
		// its path), and it is the first thing read afterwards
		if i > 0 && !read(s+"x", i) {
			return
		}
		root.Add(s, c16Type(i))
		types[s] = c16Type(i)
		sorted = append(sorted, s)
		sort.SliceStable(sorted, func(a, b int) bool { return len(sorted[a]) > len(sorted[b]) })
		if !read(s+"x", i+1) || !read(s, i+1) {
			return
		}
		for k := range inputs {
			if !read(inputs[(k+i*7)%len(inputs)], i+1) {
				return
			}
		}
	}
	c.AddEvals(reads-1, 0)
	c.NonTrivial()
}

func permutations(xs []string, f func([]string)) {
	var rec func(k int)
	rec = func(k int) {
		if k == len(xs) {
			f(xs)
			return
		}
		for i := k; i < len(xs); i++ {
			xs[k], xs[i] = xs[i], xs[k]
			rec(k + 1)
			xs[k], xs[i] = xs[i], xs[k]
		}
	}
	rec(0)
}

var c16Pristine = map[string]tokenizers.ITokenizer{"generic": newTokenizer("generic"), "expression": newTokenizer("expression"), "mustache": newTokenizer("mustache"), "csv": newTokenizer("csv")}

func buildC16(cfg *mon.Config) []*mon.Sub {
	var subs []*mon.Sub
	for _, an := range []string{"ascii", "wide"} {
		an := an
		alpha := c16Alphabets[an]
		var universe []string
		enumStrings(alpha, 3, func(parts []string) {
			if len(parts) > 0 {
				universe = append(universe, joinParts(parts))
			}
		})
		maxSet := cfg.N(3, 4)
		fullOrders := cfg.N(2, 3)
		if an == "wide" {
			maxSet = cfg.N(2, 3)
		}
		subs = append(subs, &mon.Sub{
			Name:          "sets-exhaustive-" + an,
			Rule:          fmt.Sprintf("every non-empty set of <= %d of the 39 strings of length 1..3 over %q, every registration order for sets up to 2 (quick) / 3 (thorough), seeded orders for larger sets, token types 100+997*index (0 for every fourth); on each table every input of length 1..4 over the alphabet plus 'x' is read, then every input again in reverse order (history); oracle: longest registered prefix else the single next character with type Symbol, exact text, type and number of consumed characters; a case is one read; non-trivial = the table holds a multi-character symbol", maxSet, strings.Join(alpha, "")),
			Exhaustive:    true,
			DistinctByGen: true,
			Floor:         1000,
			Gen: func(emit func(string)) {
				r := cfg.Rng("c16-orders-" + an)
				n := len(universe)
				var rec func(start int, cur []string)
				rec = func(start int, cur []string) {
					if len(cur) > 0 {
						if len(cur) <= fullOrders {
							permutations(append([]string{}, cur...), func(p []string) { emit(strings.Join(p, "\x01") + "\x00" + an) })
						} else {
							for k := 0; k < cfg.N(1, 3); k++ {
								p := append([]string{}, cur...)
								for i := len(p) - 1; i > 0; i-- {
									j := r.Intn(i + 1)
									p[i], p[j] = p[j], p[i]
								}
								emit(strings.Join(p, "\x01") + "\x00" + an)
							}
						}
					}
					if len(cur) == maxSet {
						return
					}
					for i := start; i < n; i++ {
						rec(i+1, append(cur, universe[i]))
					}
				}
				rec(0, nil)
			},
			Exec: c16Exec,
		})
	}
	subs = append(subs, &mon.Sub{
		Name:  "sets-random-large",
		Rule:  "seeded random tables of 4..12 symbols of length 1..12 over {<,=,>,!,{,},a,ш,€,CR,LF,U+0002,U+00FF,U+0100,U+FFFD,U+FFFE} in random order, read on 60 random inputs each, twice; same oracle",
		Floor: 100,
		Gen: func(emit func(string)) {
			r := cfg.Rng("c16-random")
			chars := []string{"<", "=", ">", "!", "{", "}", "a", "ш", "€", "<", "=", ">", "\r", "\n", "\ufffe", "\ufffd", "\u0002", "\u0100", "\u00ff"}
			for i := 0; i < cfg.N(2000, 200000); i++ {
				set := map[string]bool{}
				var syms []string
				for len(syms) < 4+r.Intn(9) {
					var b strings.Builder
					for j := 0; j < 1+r.Intn(12); j++ {
						b.WriteString(mon.Pick(r, chars))
					}
					if !set[b.String()] {
						set[b.String()] = true
						syms = append(syms, b.String())
					}
				}
				var ins []string
				for k := 0; k < 60; k++ {
					var b strings.Builder
					if r.Chance(1, 2) {
						b.WriteString(mon.Pick(r, syms)) // make hits likely
					} else if r.Chance(1, 2) {
						rs := []rune(mon.Pick(r, syms)) // a proper prefix of a symbol, then something else
						b.WriteString(string(rs[:1+r.Intn(len(rs))]))
					}
					for j := 0; j < 1+r.Intn(5); j++ {
						b.WriteString(mon.Pick(r, chars))
					}
					ins = append(ins, b.String())
				}
				ins = append(ins, ins...)
				emit(strings.Join(syms, "\x01") + "\x00ascii\x00" + strings.Join(ins, "\x01"))
			}
		},
		Exec: c16Exec,
	})
	subs = append(subs, &mon.Sub{
		Name:  "incremental-registration",
		Rule:  "seeded tables of 3..10 symbols of length 1..6 over {<,=,>,!,-} (many shared prefixes), registered one at a time; after every registration every input of a fixed list (every symbol, every proper prefix of a symbol followed by another character, every symbol followed by another character) is read and compared with the longest-prefix oracle for the symbols registered so far; a case is one read",
		Floor: 100,
		Gen: func(emit func(string)) {
			r := cfg.Rng("c16-incr")
			chars := []string{"<", "=", ">", "!", "-"}
			for i := 0; i < cfg.N(1500, 100000); i++ {
				set := map[string]bool{}
				var syms []string
				for len(syms) < 3+r.Intn(8) {
					var b strings.Builder
					for j := 0; j < 1+r.Intn(6); j++ {
						b.WriteString(mon.Pick(r, chars))
					}
					if r.Chance(1, 3) && len(syms) > 0 { // extend or cut an existing symbol
						base := []rune(mon.Pick(r, syms))
						b.Reset()
						b.WriteString(string(base[:1+r.Intn(len(base))]) + mon.Pick(r, chars))
					}
					if !set[b.String()] {
						set[b.String()] = true
						syms = append(syms, b.String())
					}
				}
				seen := map[string]bool{}
				var ins []string
				add := func(s string) {
					if s != "" && !seen[s] {
						seen[s] = true
						ins = append(ins, s)
					}
				}
				for _, s := range syms {
					rs := []rune(s)
					add(s)
					for k := 1; k <= len(rs); k++ {
						add(string(rs[:k]) + "x")
						add(string(rs[:k]) + mon.Pick(r, chars))
					}
				}
				emit(strings.Join(syms, "\x01") + "\x00" + strings.Join(ins, "\x01"))
			}
		},
		Exec: c16IncrExec,
	})
	subs = append(subs, &mon.Sub{
		Name:          "added-symbols-through-the-whole-tokenizer",
		Rule:          "a symbol registered by the caller on a generic or expression tokenizer (35 symbols of 1..4 characters, among them ones that start with a character another state looks at first: '-', '.', '/'; ones that contain U+FFFD, U+FFFE, a line break; prefixes and extensions of built-in symbols), with an application-defined type (in half of the cases the type Quoted, with string decoding switched on: only tokens read by the quote state are decoded), is then met in a text after a bracket or a blank and before a word, a bracket, a blank or the end (symbols whose first character belongs to a word or comment in that tokenizer are left out): the whole tokenizer must deliver it as exactly one token with its text and type (the longest registered symbol wins also when the number or comment state saw its first character first), and the neighbours unchanged; enumerated",
		Exhaustive:    true,
		DistinctByGen: true,
		Floor:         200,
		Gen: func(emit func(string)) {
			syms := []string{"->", "-->", "-", "..", "...", ".", ".:", "-.", "/.", "/-", "/=", "/:", "//", "[[", "]]", "()", "((", ",,", ";;", "$$", "%x%", "=>", ":=", "::", "<=>", "<<=", ">>>", "!==", "<-", "|>", "\ufffd\ufffd", "<\ufffd>", "=\ufffe", "\ufffe=", "&&", "||", "??", "?.", "~=", "^^", "**", "%%", "@@", "$("}
			for _, k := range []string{"generic", "expression"} {
				for _, sy := range syms {
					for _, l := range []string{")", "x1 ", "7 ", "]"} {
						for _, r := range []string{"b", "(", " y", ""} {
							emit(k + "\x00" + sy + "\x00" + l + "\x00" + r)
						}
					}
				}
			}
		},
		Exec: func(c *mon.Case) {
			parts := strings.SplitN(c.Payload, "\x00", 4)
			kind, sy, l, r := parts[0], parts[1], parts[2], parts[3]
			first := []rune(sy)[0]
			if (kind == "generic" && (first >= 0x100 || first == '#')) || (kind == "expression" && strings.HasPrefix(sy, "/*")) {
				c.Count("the symbol's first character belongs to a word or comment in this tokenizer")
				return
			}
			if strings.HasSuffix(l, string(first)) {
				c.Count("the left neighbour ends with the symbol's first character (they would merge)")
				return
			}
			c.NonTrivial()
			t := newTokenizer(kind)
			setOptions(t, 0)
			symType := 4321
			if len(l)%2 == 1 { // half of the cases: the symbol is given the type Quoted and string decoding is on - it is still a symbol, read by the symbol state
				symType = tokenizers.Quoted
				setOptions(t, optDecodeStrings)
			}
			var got, tl, tr []tok
			if p := mon.Try(func() {
				t.SymbolState().Add(sy, symType)
				tl, tr = tokenizeAll(t, l), tokenizeAll(t, r)
				got = tokenizeAll(t, l+sy+r)
			}); p != nil {
				c.FailPanic("tokenizer with an added symbol", p)
				return
			}
			show := func(ts []tok) string {
				var out []string
				for _, x := range ts {
					out = append(out, fmt.Sprintf("%d %q", x.Type, x.Value))
				}
				return strings.Join(out, " ")
			}
			want := append(append(append([]tok{}, tl[:len(tl)-1]...), tok{Type: symType, Value: sy}), tr...)
			if show(got) != show(want) {
				c.Failf("a registered symbol met in a text is not delivered as the longest registered symbol with its own type", "%s tokenizer, Add(%q, %d), text %q: got %s, want %s", kind, sy, symType, l+sy+r, show(got), show(want))
			}
		},
	})
	subs = append(subs, &mon.Sub{
		Name:          "builtin-tokenizers-growth",
		Serial:        true,
		Rule:          "registering further symbols never alters existing ones: on the generic, expression, mustache and CSV symbol states every built-in symbol is read (by a direct call of the symbol state, handing it a tokenizer that has tokenized another text before) before and after 6 extra symbols sharing its prefixes are added; a case is one (tokenizer, extra set); non-trivial always",
		DistinctByGen: true,
		Floor:         4,
		Gen: func(emit func(string)) {
			for _, k := range []string{"generic", "expression", "mustache", "csv"} {
				for _, extra := range []string{"<=>,<<=,>>>,!==,{{{{,}}}}", "<,>,=,!,{,}", "<>=,=>,=<,!<,{{#,}}/"} {
					emit(k + "\x00" + extra)
				}
			}
		},
		Exec: func(c *mon.Case) {
			c.NonTrivial()
			parts := strings.SplitN(c.Payload, "\x00", 2)
			t := newTokenizer(parts[0])
			t.TokenizeBuffer("warm up <= 1") // the tokenizer handed to the state has worked before: it still holds that (exhausted) reader
			builtin := map[string][]string{"generic": {"<>", "<=", ">="}, "expression": {"<=", ">=", "<>", "!=", ">>", "<<"},
				"mustache": {"{{", "}}", "{{{", "}}}"}, "csv": {"\n", "\r", "\r\n", "\n\r"}}[parts[0]]
			read := func(s string) string {
				sc := rio.NewStringScanner(s + "x")
				tk := t.SymbolState().NextToken(sc, t)
				return fmt.Sprintf("%d %q", tk.Type(), tk.Value())
			}
			before := map[string]string{}
			for _, s := range builtin {
				before[s] = read(s)
				if !strings.HasSuffix(before[s], fmt.Sprintf(" %q", s)) {
					c.Failf("a built-in symbol is not read as itself by a direct call of the symbol state", "tokenizer=%s (which has tokenized another text before): %q followed by x is read as %s", parts[0], s, before[s])
					return
				}
			}
			for i, e := range strings.Split(parts[1], ",") {
				t.SymbolState().Add(e, 200+i)
			}
			// another instance, built before or after, must not see what was added to this one
			pristine, later := c16Pristine[parts[0]], newTokenizer(parts[0])
			for _, e := range strings.Split(parts[1], ",") {
				rd := func(t tokenizers.ITokenizer) string {
					tk := t.SymbolState().NextToken(rio.NewStringScanner(e+"x"), t)
					return fmt.Sprintf("%d %q", tk.Type(), tk.Value())
				}
				// what an instance that never got the addition must read: the longest built-in symbol, else one character
				wantText := string([]rune(e)[:1])
				for _, bsym := range builtin {
					if strings.HasPrefix(e, bsym) && len(bsym) > len(wantText) {
						wantText = bsym
					}
				}
				if parts[0] != "csv" {
					if b := rd(later); !strings.HasSuffix(b, fmt.Sprintf(" %q", wantText)) {
						c.Failf("a symbol registered on one tokenizer shows in another instance", "tokenizer=%s: after adding %q to one instance, a NEW instance reads %q as %s, expected the built-in reading %q", parts[0], parts[1], e+"x", b, wantText)
						return
					}
				}
				if a, b := rd(pristine), rd(later); a != b {
					c.Failf("a symbol registered on one tokenizer shows in another instance", "tokenizer=%s: after adding %q to one instance, a new instance reads %q as %s, an untouched older instance as %s", parts[0], parts[1], e, b, a)
					return
				}
			}
			for _, s := range builtin {
				if got := read(s); got != before[s] {
					c.Failf("registering further symbols altered an existing one", "tokenizer=%s symbol %q read as %s before and %s after adding %q", parts[0], s, before[s], got, parts[1])
					return
				}
			}
		},
	})
	return subs
}
