package checks

import (
	"fmt"
	"strconv"
	"strings"

	"verifharness/model"
	"verifharness/mon"
)

// C01 — expression value follows precedence, associativity and operand order.

func init() { mon.Register("C01", buildC01) }

func sameProgram(a, b []string) bool {
	if len(a) != len(b) {
		return false
	}
	for i := range a {
		if a[i] != b[i] {
			return false
		}
	}
	return true
}

func markPairs(c *mon.Case, n *model.Node) {
	for side, k := range n.Kids {
		if model.IsBinary(n.Op) && model.IsBinary(k.Op) {
			c.Mark("binary-operator-pairs(parent,child,side)", n.Op+" "+k.Op+" "+strconv.Itoa(side))
		}
		markPairs(c, k)
	}
}

// c01Compare runs one source text against the tree.
func c01Compare(c *mon.Case, tree *model.Node, src, style string, e *env, mgrName string) bool {
	mgr := manager(mgrName)
	run := runCalc(src, e, mgr, true)
	if run.setPanic != nil {
		c.FailPanic("SetExpression", run.setPanic)
		return false
	}
	if run.setErr != nil {
		c.Failf("a well-formed expression is rejected", "style=%s source=%q: %v", style, src, run.setErr)
		return false
	}
	want := wantProgram(tree, true)
	if !sameProgram(run.program, want) {
		alt := wantProgram(tree, false)
		if !(model.HasSignOverIndex(tree) && sameProgram(run.program, alt)) {
			c.Failf("compiled program is not the post-order of the syntax tree", "style=%s source=%q\nwant %v\ngot  %v", style, src, want, run.program)
			return false
		}
	}
	if run.evalP != nil {
		c.FailPanic("Evaluate", run.evalP)
		return false
	}
	if (run.result == nil) == (run.evalErr == nil) {
		c.Failf("evaluation returns neither or both of result and error", "source=%q env=%s", src, e)
		return false
	}
	exp := evalTree(tree, e, mgr)
	if exp.unspec != "" || model.HasSignOverIndex(tree) {
		c.Unspecified(exp.unspec + map[bool]string{true: " sign and index on one primary", false: ""}[model.HasSignOverIndex(tree)])
		return true
	}
	if exp.isErr != (run.evalErr != nil) || (exp.isErr && exp.code != errCode(run.evalErr)) || (!exp.isErr && !valuesMatch(snap(run.result), exp.val)) {
		c.Failf("result differs from the value of the syntax tree", "style=%s manager=%s source=%q env=%s\ntree value: %s\ncalculator:  %s", style, mgrName, src, e, exp, run.outcome())
		return false
	}
	if !exp.isErr {
		c.Count("evaluated-to-a-value")
	} else {
		c.Count("evaluated-to-an-error:" + exp.code)
	}
	return true
}

var printStyles = []string{"minimal", "full-parens", "random-parens-spacing-comments-case", "tight-lowercase"}

// payload: "tree" \x00 mgr \x00 seed \x00 json(tree) \x00 env     |   "toks" \x00 mgr \x00 token string \x00 env
func c01Exec(c *mon.Case) {
	parts := strings.SplitN(c.Payload, "\x00", 5)
	switch parts[0] {
	case "tree":
		seed, _ := strconv.ParseUint(parts[2], 10, 64)
		tree := decNode(parts[3])
		e := decEnv(parts[4])
		okAll := true
		for i, src := range printings(tree, seed) {
			if !c01Compare(c, tree, src, printStyles[i], e, parts[1]) {
				okAll = false
				break
			}
		}
		c.AddEvals(len(printStyles)-1, 0)
		if okAll && tree.CountOps() >= 2 {
			c.NonTrivial()
			markPairs(c, tree)
		}
	case "toks":
		toks := strings.Split(parts[2], " ")
		tree := model.ParseTokens(etoks(toks), false)
		if tree == nil {
			c.Count("not-a-sentence (C02's business)")
			return
		}
		e := decEnv(parts[3])
		if c01Compare(c, tree, parts[2], "token-string", e, parts[1]) && tree.CountOps() >= 2 {
			c.NonTrivial()
		}
	}
}

func c01Sample(payload string) any {
	parts := strings.SplitN(payload, "\x00", 5)
	if parts[0] != "tree" {
		return map[string]any{"token string": parts[2], "variables": decEnv(parts[3]).String()}
	}
	seed, _ := strconv.ParseUint(parts[2], 10, 64)
	tree := decNode(parts[3])
	return map[string]any{"manager": parts[1], "printings": printings(tree, seed), "variables": decEnv(parts[4]).String()}
}

func buildC01(cfg *mon.Config) []*mon.Sub {
	rule := "each tree is printed four ways (minimal parentheses with single blanks; fully parenthesised; random redundant parentheses + random spacing/line breaks + /* */ comments + random keyword case; tight lower-case) and every printing must (1) be accepted, (2) compile to the post-order program of the tree (arguments, argument count, function), (3) evaluate under the variable assignment to exactly the value (type and payload) or the error code obtained by evaluating the tree directly with the same manager's variant operations in written operand order (IN with swapped container/probe, NOT IN = negated IN, IS [NOT] NULL, unary plus = identity); non-trivial = at least two operators, distinct by hash of (tree, assignment)"
	typed := &mon.Sub{
		Name: "typed-trees", Rule: fmt.Sprintf("seeded trees of depth <= %d generated with type discipline (integer arithmetic on distinct primes, shifts, bitwise and boolean logic, comparisons, string concatenation and ordering, IN / NOT IN on arrays, indexing, IS NULL, calls of Min/Max/Sum/If/Choose/Abs/Contains) so that values discriminate tree shapes, x both managers; ", cfg.N(4, 7)) + rule,
		Floor: 500,
		Gen: func(emit func(string)) {
			r := cfg.Rng("c01-typed")
			g := &exprGen{r: r}
			for i := 0; i < cfg.N(4000, 120000); i++ {
				t := g.typed(1+r.Intn(cfg.N(4, 7)), mon.Pick(r, []string{"int", "int", "bool", "bool", "str", "num"}))
				e := stdEnv(r)
				mgr := "unsafe"
				if r.Chance(1, 4) {
					mgr = "safe"
				}
				emit("tree\x00" + mgr + "\x00" + strconv.FormatUint(r.Next()%1000000, 10) + "\x00" + encNode(t) + "\x00" + encEnv(e))
			}
		},
		Exec: c01Exec, Sample: c01Sample,
		Final: func(r *mon.SubReport) string {
			if r.Counters["evaluated-to-a-value"] < r.Evaluations/4 {
				return fmt.Sprintf("only %d of %d evaluations produced a value", r.Counters["evaluated-to-a-value"], r.Evaluations)
			}
			return ""
		},
	}
	shape := &mon.Sub{
		Name: "shape-trees", Rule: fmt.Sprintf("seeded trees of depth <= %d with the operator of every node drawn uniformly from all 22 binary operators, the unary and postfix ones, indexing and calls, regardless of operand types (most evaluate to an error, which must be the same error); the table of (parent operator, child operator, side) pairs observed must be complete (22 x 22 x 2) or the run is inconclusive; ", cfg.N(4, 6)) + rule,
		Floor: 500,
		Gen: func(emit func(string)) {
			r := cfg.Rng("c01-shape")
			g := &exprGen{r: r}
			for i := 0; i < cfg.N(6000, 150000); i++ {
				t := g.shape(2 + r.Intn(cfg.N(3, 5)))
				e := stdEnv(r)
				emit("tree\x00unsafe\x00" + strconv.FormatUint(r.Next()%1000000, 10) + "\x00" + encNode(t) + "\x00" + encEnv(e))
			}
		},
		Exec: c01Exec, Sample: c01Sample,
		Final: func(r *mon.SubReport) string {
			if n := len(r.Tables["binary-operator-pairs(parent,child,side)"]); n < 22*22*2 {
				return fmt.Sprintf("operator pair table incomplete: %d of %d (parent, child, side) combinations observed", n, 22*22*2)
			}
			return ""
		},
	}
	maxLen := cfg.N(5, 7)
	small := &mon.Sub{
		Name: "small-scope-token-strings", Rule: fmt.Sprintf("every token string of length <= %d over {a, b, 2, 3, +, -, *, ^, =, <, AND, NOT, (, )} that the tabular reference parser accepts is evaluated under a fixed assignment and compared with its tree the same way (program and value); a case is one token string, non-trivial = accepted with at least two operators", maxLen),
		Exhaustive: true, DistinctByGen: true, Floor: 500,
		Gen: func(emit func(string)) {
			alpha := []string{"a", "b", "2", "3", "+", "-", "*", "^", "=", "<", "AND", "NOT", "(", ")"}
			e := &env{names: []string{"a", "b"}, vals: []Val{vInt(7), vInt(5)}}
			ee := encEnv(e)
			enumStrings(alpha, maxLen, func(parts []string) {
				if len(parts) == 0 {
					return
				}
				// cheap pre-filter: balanced parentheses and no operator at the end
				depth := 0
				for _, p := range parts {
					if p == "(" {
						depth++
					} else if p == ")" {
						depth--
						if depth < 0 {
							return
						}
					}
				}
				if depth != 0 {
					return
				}
				switch parts[len(parts)-1] {
				case "+", "-", "*", "^", "=", "<", "AND", "NOT", "(":
					return
				}
				emit("toks\x00unsafe\x00" + strings.Join(parts, " ") + "\x00" + ee)
			})
		},
		Exec: c01Exec, Sample: c01Sample,
	}
	long := &mon.Sub{
		Name: "long-chains-and-calls", Rule: "for every n in 1..70 and 100, 129, 200, 257, 300, 513, 1025: n index operations and n two-argument calls side by side; a right-nested and a left-nested chain of n operands over + - * (integers), a call of Sum, Max and Array with n arguments, an Array of n elements indexed at its last element, and n nested parentheses / nested calls; checked like every other tree (program and value); a case is one printing",
		Exhaustive: true, DistinctByGen: true, Floor: 100,
		Gen: func(emit func(string)) {
			e := &env{names: []string{"a", "b", "arr"}, vals: []Val{vInt(7), vInt(5), vArr(vInt(2), vInt(3), vInt(5))}}
			ee := encEnv(e)
			lit := func(i int) *model.Node { return leafConst(strconv.Itoa(2 + i%9)) }
			ops := []string{"+", "-", "*"}
			sizes := []int{}
			for n := 1; n <= 70; n++ {
				sizes = append(sizes, n)
			}
			sizes = append(sizes, 100, 129, 200, 257, 300, 513, 1025)
			for _, n := range sizes {
				right, left := lit(n), lit(0)
				for i := n - 1; i >= 1; i-- {
					right = binNode(ops[i%3], lit(i), right)
				}
				for i := 1; i < n; i++ {
					left = binNode(ops[i%3], left, lit(i))
				}
				var args []*model.Node
				for i := 0; i < n; i++ {
					args = append(args, lit(i))
				}
				nest := leafVar("a")
				for i := 0; i < n; i++ {
					nest = &model.Node{Op: "call", Lit: "Abs", Kids: []*model.Node{unNode("neg", nest)}}
				}
				idx := &model.Node{Op: "index", Kids: []*model.Node{leafVar("arr"), leafConst("0")}}
				for i := 1; i < n; i++ {
					idx = binNode("+", idx, &model.Node{Op: "index", Kids: []*model.Node{leafVar("arr"), leafConst(strconv.Itoa(i % 3))}})
				}
				calls := &model.Node{Op: "call", Lit: "Max", Kids: []*model.Node{lit(0), lit(1)}}
				for i := 1; i < n; i++ {
					calls = binNode("-", calls, &model.Node{Op: "call", Lit: "Max", Kids: []*model.Node{lit(i), lit(i + 1)}})
				}
				trees := []*model.Node{right, left, idx, calls,
					{Op: "call", Lit: "Sum", Kids: append(append([]*model.Node{}, args...), leafVar("b"))},
					{Op: "call", Lit: "Max", Kids: append(append([]*model.Node{}, args...), leafVar("a"))},
					{Op: "index", Kids: []*model.Node{{Op: "call", Lit: "Array", Kids: args}, leafConst(strconv.Itoa(n - 1))}},
					nest}
				for _, t := range trees {
					emit("tree\x00unsafe\x00" + strconv.Itoa(n) + "\x00" + encNode(t) + "\x00" + ee)
				}
			}
		},
		Exec: c01Exec, Sample: c01Sample,
	}
	return []*mon.Sub{typed, shape, small, long, c01FxSub(cfg)}
}
