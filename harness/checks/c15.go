package checks

import (
	"fmt"
	"regexp"
	"strconv"
	"strings"

	"github.com/pip-services3-gox/pip-services3-expressions-gox/calculator/parsers"
	rio "github.com/pip-services3-gox/pip-services3-expressions-gox/io"
	mparsers "github.com/pip-services3-gox/pip-services3-expressions-gox/mustache/parsers"
	"github.com/pip-services3-gox/pip-services3-expressions-gox/tokenizers"

	"verifharness/model"
	"verifharness/mon"
)

// C15 — tokenizer options only drop or rewrite whole tokens, never re-segment.
// C12 — every token reports the line and column of its first character.
// Both use the relation of optrel.go; C12 adds the position model.

func init() {
	mon.Register("C15", func(cfg *mon.Config) []*mon.Sub { return buildOptionChecks(cfg, false) })
	mon.Register("C12", func(cfg *mon.Config) []*mon.Sub { return buildOptionChecks(cfg, true) })
}

// optionInput produces inputs in which every token kind occurs and skipped
// kinds sit between tokens of the other kinds.
func optionInput(r *mon.Rng, kind string) string {
	var b strings.Builder
	frags := []string{"ab", "x1", "12", "3.5", "1e5", ".5", "-7", "'s t'", "'it''s'", "\"w\"", "\"\"", "''", " ", "  ", "\t", "\n", "\r\n", "\n\r", "\r",
		"/*c*/", "/* a\nb */", "# c\n", "#c", "//c\n", "😀", "𝄞", "￿", "<=", "<>", ">>", "!=", "(", ")", ",", "+", "-", ".", "/", "{{", "}}", "{{{", "}}}", "#", "^", "!", "é", "ш", "€", "AND", "not", ";", "\"a,b\"", "\"a\"\"b\"", "'open", "/*open", "\"}}\"", "'}}}'", "{{!", "{{ ! it's", "!", "/***/", "/* a **/", "\u00a0", "\u0085", "\u2028", "\u007f", "\u3000", "\v", "\f"}
	n := 1 + r.Intn(10)
	for i := 0; i < n; i++ {
		b.WriteString(mon.Pick(r, frags))
	}
	return b.String()
}

var optionPatterns = []string{
	"", " ", "\n", "\ufeffab 1", "\ufeff", "\ufeff\ufeff x", "\u200bq", "\u2060 1",
	strings.Repeat("/**/", 600) + "x", "a " + strings.Repeat("😀", 600) + " b", strings.Repeat("\uffff", 530) + "1", strings.Repeat(" /*c*/", 520), strings.Repeat("#c\n", 515) + "z", "1e309 2E+308 17976931348623159e292 1e308 " + strings.Repeat("9", 320),
	"a /*c*/ b", "a /*c*/12", "/*c*/12", "/*c*/ш", "/*c*/😀", " /*c*/ ", "a 😀 b", "😀😀", "a😀", "😀 😀", " 😀 ", "1😀2", "/*a*//*b*/", "/*a*/ /*b*/", "'q'/*c*/'r'", "/*c*/'q'",
	"# c\n12", "a # c\n b", " # c\n ", "#a\n#b\n", "a ￿ b", "￿12", "12￿", "￿￿ x", "/*c*/￿", "😀/*c*/", "  a  ", "\t\n 1 \r\n", "'it''s' \"x\"\"y\"",
	"{{😀 ! c }}x", "{{ 😀!x}}", "{{! it's }}a{{b}}'c", "{{!'}}x'y", "{{ !\"q }}{{a}}\"", "{{!}}", "{{ ! }}", "a{{!c",
	"{{ \"}}\" x }}", "{{ '}}}' y }}{{z}}", "a{{ \"}}\" }}b{{c}}", "/* a **/ x", "/***/ y /* b */ z", "/** d **/z", "a \u00a0b", " \u0085x", "\t\u2028y", " \u007fz", "\n\u3000w",
	"Hi {{x '{{' !a b}} end", "{{ \"{{{\" ! c }}z", "{{ '{{' ! 'q' }}{{b}}", "a+/* first\n*/cd*2", "ab /*x\n */ cd", "1 /* a\nbc */ 23", "x  \n   y", "a /*c*/\n /*d*/ b", "#c\n#d\nzz", "  /* a\n  */  /* b\n  */  q",
	"\"x\",'y',\"a\"\"b\"", "{{ a }}", "x{{#if a}} y {{/if}}z", "{{ 😀 }}", "{{a}} 😀 {{b}}", "a,\"b 😀\",c\r\n1,2,3", "a\n\nb", "\r\r\n\n\r", "1 2\n3.5 4\r\n-5", "1/*c*/2", "1 /*c*/ 2.5e3", "a//c\nb", "a // c\n b",
}

func hasType(ts []tok, typ int) bool {
	for _, t := range ts {
		if t.Type == typ {
			return true
		}
	}
	return false
}

func c15Routes(kind, input string, m int, want []tok) (sig, detail string, got []tok) {
	same := func(a, b []tok) bool {
		if len(a) != len(b) {
			return false
		}
		for i := range a {
			if a[i] != b[i] {
				return false
			}
		}
		return true
	}
	conv := func(ts []*tokenizers.Token) []tok {
		var out []tok
		for _, x := range ts {
			out = append(out, tok{x.Type(), x.Value(), x.Line(), x.Column()})
		}
		return out
	}
	var route string
	var alt []tok
	var strs []string
	guarded := ""
	if p := mon.Try(func() {
		t := newTokenizer(kind)
		setOptionsReversed(t, m)
		if alt = tokenizeAll(t, input); !same(alt, want) {
			route = "the same options reached by other setter calls (all options first set to the opposite, then set in reverse order)"
			return
		}
		t = newTokenizer(kind)
		setOptions(t, m)
		if alt = conv(t.TokenizeBuffer(input)); !same(alt, want) {
			route = "TokenizeBuffer"
			return
		}
		if alt = conv(t.TokenizeStream(rio.NewStringScanner(input))); !same(alt, want) {
			route = "TokenizeStream"
			return
		}
		strs = t.TokenizeBufferToStrings(input)
		alt = nil
		okStrs := len(strs) == len(want)
		for i := 0; okStrs && i < len(want); i++ {
			okStrs = strs[i] == want[i].Value
		}
		if !okStrs {
			route = "TokenizeBufferToStrings"
			return
		}
		t.SetReader(rio.NewStringScanner(input))
		for n := 0; n < len(input)+5; n++ {
			more := t.HasNextToken()
			x := t.NextToken()
			if more != (x != nil) {
				guarded = fmt.Sprintf("after %d tokens HasNextToken says %v and NextToken returns %v", len(alt), more, x)
				route = "iteration guarded by HasNextToken"
				return
			}
			if x == nil {
				break
			}
			alt = append(alt, tok{x.Type(), x.Value(), x.Line(), x.Column()})
		}
		if !same(alt, want) {
			route = "iteration guarded by HasNextToken"
		}
	}); p != nil {
		return "a route to the token stream other than the NextToken loop panics", p.Sig(), want
	}
	if route == "" {
		return "", "", want
	}
	d := "route: " + route
	if guarded != "" {
		d += "; " + guarded
	}
	if route == "TokenizeBufferToStrings" {
		d += fmt.Sprintf("; strings %q", strs)
		alt = want
	}
	return "the token stream depends on the route taken to it (setter order, whole-input or string-list entry point, HasNextToken)", d, alt
}

func buildOptionChecks(cfg *mon.Config, withPos bool) []*mon.Sub {
	installLoopMonitor()
	prop := "C15"
	if withPos {
		prop = "C12"
	}
	// payload: kind \x00 mask|"*" \x00 input
	exec := func(c *mon.Case) {
		parts := strings.SplitN(c.Payload, "\x00", 3)
		kind, input := parts[0], parts[2]
		base, p := runOptions(kind, input, 0)
		if p != nil {
			c.Count("option-free run failed (reported by C03/C04)")
			return
		}
		if withPos {
			base = expectedPositions(input, base)
		}
		masks := []int{}
		if parts[1] == "*" {
			for m := 0; m < 128; m++ {
				masks = append(masks, m)
			}
		} else {
			m, _ := strconv.Atoi(parts[1])
			masks = append(masks, m)
		}
		nontriv := 0
		for _, m := range masks {
			if parts[1] == "*" {
				c.SetPayload(kind + "\x00" + strconv.Itoa(m) + "\x00" + input)
			}
			got, p := runOptions(kind, input, m)
			if p != nil {
				if _, ok := p.Val.(mon.NoProgress); ok {
					if !withPos {
						c.Failf(kind+" tokenizer does not terminate under options", "options=%s input=%q", optNames(m), input)
					}
				} else if !withPos {
					c.FailPanic(kind+" tokenizer under options", p)
				}
				continue
			}
			groups := expectedGroups(kind, base, m)
			sig, detail := matchGroups(groups, got, withPos)
			if sig == "" && !withPos {
				// the same option set switched on only after the reader was attached
				var late []tok
				if p := mon.Try(func() {
					t := newTokenizer(kind)
					setOptions(t, 0)
					t.SetReader(rio.NewStringScanner(input))
					setOptions(t, m)
					for n := 0; n < len(input)+5; n++ {
						x := t.NextToken()
						if x == nil {
							break
						}
						late = append(late, tok{x.Type(), x.Value(), x.Line(), x.Column()})
					}
				}); p != nil {
					c.FailPanic(kind+" tokenizer with options set after the reader", p)
					continue
				}
				if s2, d2 := matchGroups(groups, late, false); s2 != "" {
					sig, detail, got = s2+" (options switched on after SetReader)", d2, late
				}
			}
			if sig == "" && !withPos && (parts[1] != "*" || (m+len(input))%8 == 0) {
				// other routes to the same stream: the options reached by another sequence of setter calls, the whole-input
				// entry points, the string-list entry point, and iteration guarded by HasNextToken
				sig, detail, got = c15Routes(kind, input, m, got)
			}
			if sig != "" {
				if withPos && !strings.Contains(sig, "position") && !strings.Contains(sig, "column") {
					c.Count("stream mismatch (reported by C15)")
					continue
				}
				if kind == "mustache" && m&optSkipUnknown != 0 && hasType(base, tokenizers.Unknown) && !strings.Contains(sig, "position") && !strings.Contains(sig, "column") {
					// known finding: see DESIGN.md (C15) and known_findings.json
					c.Fail("mustache: an Unknown token inside a tag switches the option-free run back to text mode while the skip-unknown run stays in tag mode",
						fmt.Sprintf("options=%s input=%q\n%s\noption-free: %s\nwith options: %s", optNames(m), input, detail, toksString(base), toksString(got)))
					continue
				}
				if strings.Contains(sig, "position") && m != 0 {
					sig += " (under options)"
				}
				c.Failf(kind+": "+sig, "options=%s input=%q\n%s\noption-free: %s\nwith options: %s", optNames(m), input, detail, toksString(base), toksString(got))
				continue
			}
			if len(got) != len(base) || m == 0 {
				nontriv++
			}
			if !withPos {
				for _, t := range base {
					c.Mark("kinds-seen-"+kind, tokTypeName(t.Type))
				}
			}
		}
		if parts[1] == "*" {
			c.AddEvals(len(masks)-1, nontriv)
		} else if nontriv > 0 {
			c.NonTrivial()
		}
	}
	rule := "all 128 option sets; oracle: the option run (options set before the reader, and switched on only after SetReader) equals the option-free run with Unknown/Comment/end-of-input tokens removed iff their skip option is on, every whitespace run reduced to exactly one of its tokens iff skip-whitespaces is on, whitespace rewritten to one blank iff merge is on, Integer/Float/Hex retyped Number iff unify is on, quote-state tokens replaced by their reference decoding iff decode is on, and nothing else changed"
	if !withPos {
		rule += "; on every eighth (option set, input) combination and on all single-option-set cases the same stream must also come out when the option set is reached by other setter calls (all seven first set to the opposite, then set in reverse order), through TokenizeBuffer, TokenizeStream and (values only) TokenizeBufferToStrings, and through a loop in which HasNextToken is asked before every NextToken and must answer true exactly when a token follows"
	}
	if withPos {
		rule += "; every token (also after skipped ones) must carry line/column of its first character computed from its offset in the option-free stream by the independent line/column model, the end-of-input token one column past the last character"
	}
	rule += "; a case is one (tokenizer, option set, input); non-trivial = at least one token was removed or rewritten (or the option-free run itself)"
	var subs []*mon.Sub
	subs = append(subs, &mon.Sub{
		Name: "patterns-x-128", Rule: "hand-written inputs with skipped kinds between others (" + strconv.Itoa(len(optionPatterns)) + " patterns) on six tokenizer configurations x " + rule,
		Exhaustive: true, DistinctByGen: true, Floor: 100,
		Gen: func(emit func(string)) {
			for _, k := range allTokenizers {
				for _, p := range optionPatterns {
					emit(k + "\x00*\x00" + p)
				}
			}
		},
		Exec: exec,
	})
	subs = append(subs, &mon.Sub{
		Name: "exhaustive-small-x-128", Rule: fmt.Sprintf("every string of length <= %d over the alphabet {a,1,.,-,/,*,',\",<,=,{,},#,space,LF,CR,é,ш,😀,U+FFFF} on the four built-in tokenizers x ", cfg.N(2, 3)) + rule,
		Exhaustive: true, DistinctByGen: true, Floor: 100,
		Gen: func(emit func(string)) {
			alpha := []string{"a", "1", ".", "-", "/", "*", "'", "\"", "<", "=", "{", "}", "#", " ", "\n", "\r", "é", "ш", "😀", "￿", "\u00a0", "\u2028", "\u007f"}
			enumStrings(alpha, cfg.N(2, 3), func(parts []string) {
				s := joinParts(parts)
				for _, k := range builtinTokenizers {
					emit(k + "\x00*\x00" + s)
				}
			})
		},
		Exec: exec,
	})
	subs = append(subs, &mon.Sub{
		Name: "random-x-128", Rule: "seeded random concatenations of 1..10 fragments of every token kind (words, numbers, quoted, comments of three styles, line breaks of four styles, astral and U+FFFF characters without a state, multi-character symbols, mustache tags, CSV cells) on six tokenizer configurations x " + rule,
		Floor: 100,
		Gen: func(emit func(string)) {
			r := cfg.Rng(prop + "-random")
			for i := 0; i < cfg.N(700, 30000); i++ {
				k := mon.Pick(r, allTokenizers)
				emit(k + "\x00*\x00" + optionInput(r, k))
			}
		},
		Exec: exec,
	})
	subs = append(subs, &mon.Sub{
		Name: "lexeme-sequences", Rule: "C13 lexeme sequences of the generic and expression tokenizers with random line breaks, one seeded option set each (and all 128 on a sample) x " + rule,
		Floor: 100,
		Gen: func(emit func(string)) {
			r := cfg.Rng(prop + "-lex")
			for _, kind := range []string{"expression", "generic"} {
				g := &lexGen{kind: kind, r: r}
				for i := 0; i < cfg.N(3000, 200000); i++ {
					s := lexText(g.sequence(1 + r.Intn(20)))
					m := strconv.Itoa(r.Intn(128))
					if i%50 == 0 {
						m = "*"
					}
					emit(kind + "\x00" + m + "\x00" + s)
				}
			}
		},
		Exec: exec,
	})
	subs = append(subs, &mon.Sub{
		Name: "long-inputs", Rule: "seeded inputs of 300..1500 characters (lexeme sequences and fragment concatenations with CR LF, LF CR, U+2028/2029 and other exotic blanks), the option-free set and one seeded option set each, on the six tokenizer configurations x " + rule,
		Floor: 50,
		Gen: func(emit func(string)) {
			r := cfg.Rng(prop + "-long")
			for i := 0; i < cfg.N(300, 12000); i++ {
				var b strings.Builder
				kind := mon.Pick(r, allTokenizers)
				g := &lexGen{kind: mon.Pick(r, []string{"expression", "generic"}), r: r}
				for b.Len() < 300+r.Intn(1200) {
					if r.Bool() {
						b.WriteString(lexText(g.sequence(1 + r.Intn(6))))
					} else {
						b.WriteString(optionInput(r, kind))
					}
					b.WriteString(mon.Pick(r, []string{"\r\n", "\n", " ", "\r\n", "\n\r", "\r", "\u2028", " \t"}))
				}
				emit(kind + "\x00" + strconv.Itoa(r.Intn(128)) + "\x00" + b.String())
				emit(kind + "\x000\x00" + b.String())
			}
		},
		Exec: exec,
	})
	if withPos {
		subs = append(subs, &mon.Sub{
			Name: "huge-coordinates", Rule: "one line of 70 000 characters (a long word, then short tokens) and 66 000 short lines (not on the CSV configurations), option-free and under two option sets: columns and lines beyond 65 535 must still be reported exactly x " + rule,
			Exhaustive: true, DistinctByGen: true, Floor: 10,
			Gen: func(emit func(string)) {
				wide := strings.Repeat("w", 69990) + " 12 'q' <= x\ny 7"
				// lines that end in a blank: no state has to push a line break back (un-reading a line break makes
				// the scanner recount from the start, which is quadratic over 66 000 lines; the CSV symbol state always does)
				tall := strings.Repeat("a \n", 66000) + "zz 9 <= 'q'"
				for _, k := range allTokenizers {
					for _, m := range []string{"0", "64", "127"} {
						emit(k + "\x00" + m + "\x00" + wide)
						if !strings.HasPrefix(k, "csv") {
							emit(k + "\x00" + m + "\x00" + tall)
						}
					}
				}
			},
			Exec: exec,
		})
		subs = append(subs, c12ErrorPositions(cfg))
		subs = append(subs, c12CompiledPositions(cfg))
		subs = append(subs, c12TemplateErrorPositions(cfg))
	}
	if !withPos {
		subs[0].Final = func(r *mon.SubReport) string {
			for _, k := range []string{"generic", "expression"} {
				for _, n := range []string{"Unknown", "Comment", "Whitespace", "Eof", "Integer", "Float", "Quoted"} {
					if r.Tables["kinds-seen-"+k][n] == 0 {
						return "patterns never produced a " + n + " token on the " + k + " tokenizer"
					}
				}
			}
			return ""
		}
	}
	_ = tokenizers.Eof
	return subs
}

var reLineCol = regexp.MustCompile(`at line (\d+) and column (\d+)`)

// c12ErrorPositions: positions quoted in syntax-error messages point at the offending token.
func c12ErrorPositions(cfg *mon.Config) *mon.Sub {
	return &mon.Sub{
		Name:  "syntax-error-positions",
		Rule:  "seeded valid expressions printed with random blanks, tabs and line breaks of all four styles between tokens, made malformed by one stray token at a known offset (an unknown symbol '@' anywhere, or an identifier / constant / ')' appended after the complete expression, or ')' / '*' put in front, or a stray constant before the ')' of a call or the ']' of an index, or a keyword operator written twice in a row in an expression that already uses that keyword, or a unary minus followed by a token that cannot start an operand); the line and column quoted in the error message must be the coordinates the independent line/column model gives for the first character of that token; non-trivial = multi-line source",
		Floor: 200,
		Gen: func(emit func(string)) {
			r := cfg.Rng("c12-errpos")
			g := &exprGen{r: r}
			seps := []string{" ", "  ", "\t", "\n", "\r\n", "\n\r", "\r", " \n ", "/* c */ ", "/* a\nb */"}
			for i := 0; i < cfg.N(3000, 100000); i++ {
				toks := model.Tokens(g.typed(1+r.Intn(3), mon.Pick(r, []string{"int", "bool", "str"})), nil)
				mode := r.Intn(7)
				at := -1
				stray := ""
				minusFirst := false
				if mode == 6 {
					// a unary minus, then (often on the next line) a token that cannot start an operand
					toks = model.Tokens(g.typed(1+r.Intn(3), "int"), nil)
					var after []int
					for k, t := range toks {
						if t == "*" || t == "/" || t == "(" || t == "," {
							after = append(after, k+1)
						}
					}
					at, stray, minusFirst = 0, mon.Pick(r, []string{")", "*", ",", "]", "/"}), true
					if len(after) > 0 {
						at = mon.Pick(r, after)
					}
				}
				if mode == 4 {
					// a keyword operator written twice in a row, in an expression that uses the same keyword before
					toks = model.Tokens(g.typed(2+r.Intn(3), "bool"), nil)
					last := map[string]int{}
					count := map[string]int{}
					for k, t := range toks {
						if t == "AND" || t == "OR" || t == "XOR" {
							last[t] = k
							count[t]++
						}
					}
					mode = 0 // falls back to a stray '@' when no keyword operator occurs
					for _, kw := range []string{"AND", "OR", "XOR"} {
						if count[kw] >= 2 || (count[kw] == 1 && mode == 0) {
							at, stray, mode = last[kw]+1, kw, 4
						}
					}
				}
				if mode == 5 {
					// a stray constant or name where the ']' of an index belongs, usually on a later line than the '['
					inner := model.Tokens(g.typed(r.Intn(2), "int"), nil)
					toks = append(append([]string{mon.Pick(r, []string{"arr", "sarr"}), "["}, inner...), "]")
					if r.Bool() {
						toks = append(append([]string{"a", "+"}, toks...), "*", "2")
						at = len(toks) - 3
					} else {
						at = len(toks) - 1
					}
					stray = mon.Pick(r, []string{"3", "zz", "'s'", ")"})
				}
				if mode == 3 {
					// a stray constant after the last argument of a call: the missing ')' is reported at that token
					inner := model.Tokens(g.typed(r.Intn(2), "int"), nil)
					toks = append(append([]string{mon.Pick(r, []string{"Max", "Min", "Sum"}), "(", "a", ","}, inner...), ")")
					at = len(toks) - 1
					stray = mon.Pick(r, []string{"3", "zz", "'s'", "]"})
				}
				switch mode {
				case 0:
					at = r.Intn(len(toks) + 1)
					stray = "@"
				case 1:
					at = len(toks)
					stray = mon.Pick(r, []string{"zz", "42", ")", "'s'", "]"})
				case 2:
					at = 0
					stray = mon.Pick(r, []string{")", "*", "]", ","})
				}
				all := append(append(append([]string{}, toks[:at]...), stray), toks[at:]...)
				if minusFirst {
					all = append(append(append([]string{}, toks[:at]...), "-", stray), toks[at:]...)
					at++
				}
				var b strings.Builder
				if r.Chance(1, 8) { // vertical tab / form feed in front are not trimmed by the parser
					b.WriteString(mon.Pick(r, []string{"\v", "\f", "\v\n", "\f "}))
				}
				off := 0
				for k, t := range all {
					if k > 0 {
						b.WriteString(mon.Pick(r, seps))
					}
					if k == at {
						off = len([]rune(b.String()))
					}
					b.WriteString(t)
				}
				emit(strconv.Itoa(off) + "\x00" + b.String())
			}
		},
		Exec: func(c *mon.Case) {
			i := strings.IndexByte(c.Payload, 0)
			off, _ := strconv.Atoi(c.Payload[:i])
			src := c.Payload[i+1:]
			p := parsers.NewExpressionParser()
			var err error
			if pn := mon.Try(func() { err = p.ParseString(src) }); pn != nil {
				c.Count("panic (reported by C03)")
				return
			}
			if err == nil {
				c.Count("accepted (C02's business)")
				return
			}
			m := reLineCol.FindStringSubmatch(err.Error())
			if m == nil {
				c.Count("error without a position")
				return
			}
			lines, cols := model.LCTable([]rune(src))
			wl, wc := lines[off+1], cols[off+1]
			gl, _ := strconv.Atoi(m[1])
			gc, _ := strconv.Atoi(m[2])
			if gl != wl || gc != wc {
				c.Failf("position quoted in a syntax error does not point at the offending token", "source=%q stray token at offset %d (line %d column %d), message: %v", src, off, wl, wc, err)
				return
			}
			c.Count("positions-checked")
			if strings.ContainsAny(src, "\n\r") {
				c.NonTrivial()
			}
		},
		Final: func(r *mon.SubReport) string {
			if r.Counters["positions-checked"] < r.Evaluations/2 {
				return fmt.Sprintf("only %d of %d malformed expressions produced a positioned error", r.Counters["positions-checked"], r.Evaluations)
			}
			return ""
		},
	}
}

// c12CompiledPositions: the positions carried by the parser's own tokens are positions of source tokens, in source order.
func c12CompiledPositions(cfg *mon.Config) *mon.Sub {
	return &mon.Sub{
		Name:  "compiled-token-positions",
		Rule:  "seeded valid expressions (boolean and integer trees with repeated keywords, names and constants) printed with random blanks, tabs, comments and line breaks of all four styles between tokens: every token of the parser's initial token list must carry the line and column (by the independent line/column model) at which one of the source tokens starts, in strictly increasing source order, and every token of the compiled program must carry such a position too - a function or variable token that of a source token spelling its name (nested calls!); non-trivial = multi-line source with a repeated spelling",
		Floor: 200,
		Gen: func(emit func(string)) {
			r := cfg.Rng("c12-compiled")
			g := &exprGen{r: r}
			seps := []string{" ", "  ", "\t", "\n", "\r\n", "\n\r", "\r", " \n ", "/* c */ ", "/* a\nb */"}
			for i := 0; i < cfg.N(3000, 100000); i++ {
				toks := model.Tokens(g.typed(1+r.Intn(4), mon.Pick(r, []string{"int", "bool", "bool", "str"})), nil)
				var b strings.Builder
				var offs []string
				for k, t := range toks {
					if k > 0 {
						b.WriteString(mon.Pick(r, seps))
					}
					offs = append(offs, strconv.Itoa(len([]rune(b.String()))))
					b.WriteString(t)
				}
				emit(strings.Join(offs, ",") + "\x00" + b.String())
			}
		},
		Exec: func(c *mon.Case) {
			i := strings.IndexByte(c.Payload, 0)
			src := c.Payload[i+1:]
			p := parsers.NewExpressionParser()
			var err error
			if pn := mon.Try(func() { err = p.ParseString(src) }); pn != nil || err != nil {
				c.Count("not compiled (C01/C02/C03's business)")
				return
			}
			lines, cols := model.LCTable([]rune(src))
			starts := map[[2]int]int{}
			for k, o := range strings.Split(c.Payload[:i], ",") {
				off, _ := strconv.Atoi(o)
				starts[[2]int{lines[off+1], cols[off+1]}] = k
			}
			prev := -1
			for n, t := range p.InitialTokens() {
				k, ok := starts[[2]int{t.Line(), t.Column()}]
				if !ok || k <= prev {
					c.Failf("a token of the parser's initial list does not carry the position of its source token", "source=%q initial token #%d (type %d, value %v) reports line %d column %d: %s", src, n, t.Type(), snap(t.Value()), t.Line(), t.Column(),
						map[bool]string{true: "a position of an earlier source token", false: "no source token starts there"}[ok])
					return
				}
				prev = k
			}
			srcToks := strings.Split(c.Payload[:i], ",")
			rs := []rune(src)
			textAt := func(k int) string { // the source token with index k: from its offset to the next blank, comment or token start
				off, _ := strconv.Atoi(srcToks[k])
				end := len(rs)
				if k+1 < len(srcToks) {
					end, _ = strconv.Atoi(srcToks[k+1])
				}
				return strings.TrimRight(string(rs[off:end]), " \t\r\n")
			}
			for n, t := range p.ResultTokens() {
				k, ok := starts[[2]int{t.Line(), t.Column()}]
				if !ok && (t.Line() != 0 || t.Column() != 0) {
					c.Failf("a token of the compiled program carries a position at which no source token starts", "source=%q program token #%d (type %d) reports line %d column %d", src, n, t.Type(), t.Line(), t.Column())
					return
				}
				// a function or variable token points at a source token that spells its name
				if ok && (t.Type() == parsers.Function || t.Type() == parsers.Variable) {
					name := snap(t.Value()).V
					if at := textAt(k); !strings.HasPrefix(strings.ToUpper(strings.Trim(at, "\"")), strings.ToUpper(name)) && !strings.HasPrefix(strings.ToUpper(at), strings.ToUpper(name)) {
						c.Failf("a token of the compiled program carries the position of another source token", "source=%q program token #%d (%s %q) reports line %d column %d, where the source has %q", src, n, map[bool]string{true: "function", false: "variable"}[t.Type() == parsers.Function], name, t.Line(), t.Column(), at)
						return
					}
				}
			}
			c.Count("positions-checked")
			if strings.ContainsAny(src, "\n\r") {
				c.NonTrivial()
			}
		},
	}
}

// c12TemplateErrorPositions: the position quoted when a template is rejected lies inside the offending tag.
func c12TemplateErrorPositions(cfg *mon.Config) *mon.Sub {
	return &mon.Sub{
		Name:  "template-error-positions",
		Rule:  "seeded well-formed templates (text with line breaks of all styles, variables, comments, nested sections) made malformed at a known place: a stray end tag {{/zzq}}, a tag with a symbol no tag may contain (%, %d, ?, *, =, + ...) or an inverted section spelled {{^if zzq}} inserted between two segments (at top level or inside open sections, with and without anything after it), or one more closing brace on a variable tag, or one more opening brace on it; the template must be rejected, and when the message quotes a line and column they must - by the independent line/column model - lie inside the offending tag (from its first opening brace to its last closing brace), and a 'Mismatched brackets' message, which names the closing brackets it expected, must quote the place of the closing braces found instead; non-trivial = the tag is not on the first line",
		Floor: 200,
		Gen: func(emit func(string)) {
			r := cfg.Rng("c12-tmplerr")
			g := &tmplGen{r: r}
			for i := 0; i < cfg.N(3000, 100000); i++ {
				nodes := sanitizeTemplate(g.nodes(2, 5))
				segs := model.PrintSegments(nodes)
				var b strings.Builder
				start, end := -1, -1
				if r.Chance(3, 4) || len(segs) == 0 {
					at := r.Intn(len(segs) + 1)
					bad := "{{" + mon.Pick(r, tmplPads[:8]) + "/" + "zzq" + mon.Pick(r, tmplPads[:8]) + "}}"
					switch r.Intn(5) {
					case 0: // a symbol that no tag may contain, also ones that look like format verbs
						bad = "{{" + mon.Pick(r, tmplPads[:8]) + "discount " + mon.Pick(r, []string{"%", "%d", "%s %s", "%!", "?", "*", "=", "+", "%v%%"}) + mon.Pick(r, tmplPads[:8]) + "}}"
					case 1: // an inverted section spelled with a section word
						bad = "{{^" + mon.Pick(r, []string{"if", "unless", "IF"}) + " " + mon.Pick(r, tmplPads[:8]) + "zzq" + mon.Pick(r, tmplPads[:8]) + "}}"
					}
					for k := 0; k <= len(segs); k++ {
						if k == at {
							start = len([]rune(b.String()))
							b.WriteString(bad)
							end = len([]rune(b.String()))
							if r.Bool() {
								b.WriteString(mon.Pick(r, []string{"tail", "\nmore\n{{a}} ", " x"}))
							}
						}
						if k < len(segs) {
							b.WriteString(segs[k].Text)
						}
					}
				} else {
					var vars []int
					for k, sg := range segs {
						if sg.Kind == "var" && !sg.Node.Triple {
							vars = append(vars, k)
						}
					}
					if len(vars) == 0 {
						continue
					}
					at := mon.Pick(r, vars)
					for k, sg := range segs {
						if k == at {
							start = len([]rune(b.String()))
							if r.Bool() {
								b.WriteString(sg.Text + "}")
							} else { // the other way round: three braces open, two close
								b.WriteString("{" + sg.Text)
							}
							end = len([]rune(b.String()))
							continue
						}
						b.WriteString(sg.Text)
					}
				}
				src := b.String()
				if src != strings.Trim(src, " \t\r\n") {
					continue // the parser trims the text first: offsets would shift
				}
				emit(strconv.Itoa(start) + "," + strconv.Itoa(end) + "\x00" + src)
			}
		},
		Exec: func(c *mon.Case) {
			i := strings.IndexByte(c.Payload, 0)
			var start, end int
			fmt.Sscanf(c.Payload[:i], "%d,%d", &start, &end)
			src := c.Payload[i+1:]
			var err error
			if pn := mon.Try(func() { err = mparsers.NewMustacheParser().ParseString(src) }); pn != nil {
				c.Count("panic (reported by C03)")
				return
			}
			if err == nil {
				c.Count("accepted (C10's business)")
				return
			}
			m := reLineCol.FindStringSubmatch(err.Error())
			if m == nil {
				if strings.Contains(err.Error(), " at line ") || strings.Contains(err.Error(), "%!") {
					c.Failf("position quoted when a template is rejected does not point at the offending tag", "template=%q offending tag %q: the message quotes no readable line and column: %v", src, string([]rune(src)[start:end]), err)
					return
				}
				c.Count("error without a position")
				return
			}
			gl, _ := strconv.Atoi(m[1])
			gc, _ := strconv.Atoi(m[2])
			lines, cols := model.LCTable([]rune(src))
			inside := false
			for o := start; o < end; o++ {
				if lines[o+1] == gl && cols[o+1] == gc {
					inside = true
				}
			}
			if !inside {
				c.Failf("position quoted when a template is rejected does not point at the offending tag", "template=%q offending tag %q (lines %d..%d, first column %d), message: %v", src, string([]rune(src)[start:end]), lines[start+1], lines[end], cols[start+1], err)
				return
			}
			if strings.Contains(err.Error(), "Mismatched brackets") {
				// the message names the closing brackets it expected: the offending token is the run of closing braces found in their place
				tag := []rune(src)[start:end]
				cl := len(tag)
				for cl > 0 && tag[cl-1] == '}' {
					cl--
				}
				if o := start + cl; cl < len(tag) && (lines[o+1] != gl || cols[o+1] != gc) {
					c.Failf("position quoted for mismatched brackets is not that of the closing brackets found", "template=%q offending tag %q: closing braces at line %d column %d, message: %v", src, string(tag), lines[o+1], cols[o+1], err)
					return
				}
				c.Count("mismatched-brackets positions checked against the closing braces")
			}
			c.Count("positions-checked")
			if lines[start+1] > 1 {
				c.NonTrivial()
			}
		},
		Final: func(r *mon.SubReport) string {
			if r.Counters["mismatched-brackets positions checked against the closing braces"] == 0 {
				return "no mismatched-brackets error was observed"
			}
			if r.Counters["positions-checked"] < r.Evaluations/3 {
				return fmt.Sprintf("only %d of %d malformed templates produced a positioned error", r.Counters["positions-checked"], r.Evaluations)
			}
			return ""
		},
	}
}
