package checks

import (
	"fmt"
	"regexp"
	"strconv"
	"strings"

	"github.com/pip-services3-gox/pip-services3-expressions-gox/calculator/parsers"
	rio "github.com/pip-services3-gox/pip-services3-expressions-gox/io"
	"github.com/pip-services3-gox/pip-services3-expressions-gox/tokenizers"

	"verifharness/model"
	"verifharness/mon"
)

// C15 — tokenizer options only drop or rewrite whole tokens, never re-segment.
// C12 — every token reports the line and column of its first character.
// Both use the relation of optrel.go; C12 adds the position model.

func init() {
	mon.Register("C15", func(cfg *mon.Config) []*mon.Sub { return buildOptionChecks(cfg, false) })
	mon.Register("C12", func(cfg *mon.Config) []*mon.Sub { return buildOptionChecks(cfg, true) })
}

// optionInput produces inputs in which every token kind occurs and skipped
// kinds sit between tokens of the other kinds.
func optionInput(r *mon.Rng, kind string) string {
	var b strings.Builder
	frags := []string{"ab", "x1", "12", "3.5", "1e5", ".5", "-7", "'s t'", "'it''s'", "\"w\"", "\"\"", "''", " ", "  ", "\t", "\n", "\r\n", "\n\r", "\r",
		"/*c*/", "/* a\nb */", "# c\n", "#c", "//c\n", "😀", "𝄞", "￿", "<=", "<>", ">>", "!=", "(", ")", ",", "+", "-", ".", "/", "{{", "}}", "{{{", "}}}", "#", "^", "!", "é", "ш", "€", "AND", "not", ";", "\"a,b\"", "\"a\"\"b\"", "'open", "/*open", "\"}}\"", "'}}}'", "{{!", "{{ ! it's", "!", "/***/", "/* a **/", "\u00a0", "\u0085", "\u2028", "\u007f", "\u3000", "\v", "\f"}
	n := 1 + r.Intn(10)
	for i := 0; i < n; i++ {
		b.WriteString(mon.Pick(r, frags))
	}
	return b.String()
}

var optionPatterns = []string{
	strings.Repeat("/**/", 600) + "x", "a " + strings.Repeat("😀", 600) + " b", strings.Repeat("\uffff", 530) + "1", strings.Repeat(" /*c*/", 520), strings.Repeat("#c\n", 515) + "z", "1e309 2E+308 17976931348623159e292 1e308 " + strings.Repeat("9", 320),
	"a /*c*/ b", "a /*c*/12", "/*c*/12", "/*c*/ш", "/*c*/😀", " /*c*/ ", "a 😀 b", "😀😀", "a😀", "😀 😀", " 😀 ", "1😀2", "/*a*//*b*/", "/*a*/ /*b*/", "'q'/*c*/'r'", "/*c*/'q'",
	"# c\n12", "a # c\n b", " # c\n ", "#a\n#b\n", "a ￿ b", "￿12", "12￿", "￿￿ x", "/*c*/￿", "😀/*c*/", "  a  ", "\t\n 1 \r\n", "'it''s' \"x\"\"y\"",
	"{{😀 ! c }}x", "{{ 😀!x}}", "{{! it's }}a{{b}}'c", "{{!'}}x'y", "{{ !\"q }}{{a}}\"", "{{!}}", "{{ ! }}", "a{{!c",
	"{{ \"}}\" x }}", "{{ '}}}' y }}{{z}}", "a{{ \"}}\" }}b{{c}}", "/* a **/ x", "/***/ y /* b */ z", "/** d **/z", "a \u00a0b", " \u0085x", "\t\u2028y", " \u007fz", "\n\u3000w",
	"\"x\",'y',\"a\"\"b\"", "{{ a }}", "x{{#if a}} y {{/if}}z", "{{ 😀 }}", "{{a}} 😀 {{b}}", "a,\"b 😀\",c\r\n1,2,3", "a\n\nb", "\r\r\n\n\r", "1 2\n3.5 4\r\n-5", "1/*c*/2", "1 /*c*/ 2.5e3", "a//c\nb", "a // c\n b",
}

func hasType(ts []tok, typ int) bool {
	for _, t := range ts {
		if t.Type == typ {
			return true
		}
	}
	return false
}

func buildOptionChecks(cfg *mon.Config, withPos bool) []*mon.Sub {
	installLoopMonitor()
	prop := "C15"
	if withPos {
		prop = "C12"
	}
	// payload: kind \x00 mask|"*" \x00 input
	exec := func(c *mon.Case) {
		parts := strings.SplitN(c.Payload, "\x00", 3)
		kind, input := parts[0], parts[2]
		base, p := runOptions(kind, input, 0)
		if p != nil {
			c.Count("option-free run failed (reported by C03/C04)")
			return
		}
		if withPos {
			base = expectedPositions(input, base)
		}
		masks := []int{}
		if parts[1] == "*" {
			for m := 0; m < 128; m++ {
				masks = append(masks, m)
			}
		} else {
			m, _ := strconv.Atoi(parts[1])
			masks = append(masks, m)
		}
		nontriv := 0
		for _, m := range masks {
			if parts[1] == "*" {
				c.SetPayload(kind + "\x00" + strconv.Itoa(m) + "\x00" + input)
			}
			got, p := runOptions(kind, input, m)
			if p != nil {
				if _, ok := p.Val.(mon.NoProgress); ok {
					if !withPos {
						c.Failf(kind+" tokenizer does not terminate under options", "options=%s input=%q", optNames(m), input)
					}
				} else if !withPos {
					c.FailPanic(kind+" tokenizer under options", p)
				}
				continue
			}
			groups := expectedGroups(kind, base, m)
			sig, detail := matchGroups(groups, got, withPos)
			if sig == "" && !withPos {
				// the same option set switched on only after the reader was attached
				var late []tok
				if p := mon.Try(func() {
					t := newTokenizer(kind)
					setOptions(t, 0)
					t.SetReader(rio.NewStringScanner(input))
					setOptions(t, m)
					for n := 0; n < len(input)+5; n++ {
						x := t.NextToken()
						if x == nil {
							break
						}
						late = append(late, tok{x.Type(), x.Value(), x.Line(), x.Column()})
					}
				}); p != nil {
					c.FailPanic(kind+" tokenizer with options set after the reader", p)
					continue
				}
				if s2, d2 := matchGroups(groups, late, false); s2 != "" {
					sig, detail, got = s2+" (options switched on after SetReader)", d2, late
				}
			}
			if sig != "" {
				if withPos && !strings.Contains(sig, "position") && !strings.Contains(sig, "column") {
					c.Count("stream mismatch (reported by C15)")
					continue
				}
				if kind == "mustache" && m&optSkipUnknown != 0 && hasType(base, tokenizers.Unknown) && !strings.Contains(sig, "position") && !strings.Contains(sig, "column") {
					// known finding: see DESIGN.md (C15) and known_findings.json
					c.Fail("mustache: an Unknown token inside a tag switches the option-free run back to text mode while the skip-unknown run stays in tag mode",
						fmt.Sprintf("options=%s input=%q\n%s\noption-free: %s\nwith options: %s", optNames(m), input, detail, toksString(base), toksString(got)))
					continue
				}
				if strings.Contains(sig, "position") && m != 0 {
					sig += " (under options)"
				}
				c.Failf(kind+": "+sig, "options=%s input=%q\n%s\noption-free: %s\nwith options: %s", optNames(m), input, detail, toksString(base), toksString(got))
				continue
			}
			if len(got) != len(base) || m == 0 {
				nontriv++
			}
			if !withPos {
				for _, t := range base {
					c.Mark("kinds-seen-"+kind, tokTypeName(t.Type))
				}
			}
		}
		if parts[1] == "*" {
			c.AddEvals(len(masks)-1, nontriv)
		} else if nontriv > 0 {
			c.NonTrivial()
		}
	}
	rule := "all 128 option sets; oracle: the option run equals the option-free run with Unknown/Comment/end-of-input tokens removed iff their skip option is on, every whitespace run reduced to exactly one of its tokens iff skip-whitespaces is on, whitespace rewritten to one blank iff merge is on, Integer/Float/Hex retyped Number iff unify is on, quote-state tokens replaced by their reference decoding iff decode is on, and nothing else changed"
	if withPos {
		rule += "; every token (also after skipped ones) must carry line/column of its first character computed from its offset in the option-free stream by the independent line/column model, the end-of-input token one column past the last character"
	}
	rule += "; a case is one (tokenizer, option set, input); non-trivial = at least one token was removed or rewritten (or the option-free run itself)"
	var subs []*mon.Sub
	subs = append(subs, &mon.Sub{
		Name: "patterns-x-128", Rule: "hand-written inputs with skipped kinds between others (" + strconv.Itoa(len(optionPatterns)) + " patterns) on six tokenizer configurations x " + rule,
		Exhaustive: true, DistinctByGen: true, Floor: 100,
		Gen: func(emit func(string)) {
			for _, k := range allTokenizers {
				for _, p := range optionPatterns {
					emit(k + "\x00*\x00" + p)
				}
			}
		},
		Exec: exec,
	})
	subs = append(subs, &mon.Sub{
		Name: "exhaustive-small-x-128", Rule: fmt.Sprintf("every string of length <= %d over the alphabet {a,1,.,-,/,*,',\",<,=,{,},#,space,LF,CR,é,ш,😀,U+FFFF} on the four built-in tokenizers x ", cfg.N(2, 3)) + rule,
		Exhaustive: true, DistinctByGen: true, Floor: 100,
		Gen: func(emit func(string)) {
			alpha := []string{"a", "1", ".", "-", "/", "*", "'", "\"", "<", "=", "{", "}", "#", " ", "\n", "\r", "é", "ш", "😀", "￿", "\u00a0", "\u2028", "\u007f"}
			enumStrings(alpha, cfg.N(2, 3), func(parts []string) {
				s := joinParts(parts)
				for _, k := range builtinTokenizers {
					emit(k + "\x00*\x00" + s)
				}
			})
		},
		Exec: exec,
	})
	subs = append(subs, &mon.Sub{
		Name: "random-x-128", Rule: "seeded random concatenations of 1..10 fragments of every token kind (words, numbers, quoted, comments of three styles, line breaks of four styles, astral and U+FFFF characters without a state, multi-character symbols, mustache tags, CSV cells) on six tokenizer configurations x " + rule,
		Floor: 100,
		Gen: func(emit func(string)) {
			r := cfg.Rng(prop + "-random")
			for i := 0; i < cfg.N(700, 30000); i++ {
				k := mon.Pick(r, allTokenizers)
				emit(k + "\x00*\x00" + optionInput(r, k))
			}
		},
		Exec: exec,
	})
	subs = append(subs, &mon.Sub{
		Name: "lexeme-sequences", Rule: "C13 lexeme sequences of the generic and expression tokenizers with random line breaks, one seeded option set each (and all 128 on a sample) x " + rule,
		Floor: 100,
		Gen: func(emit func(string)) {
			r := cfg.Rng(prop + "-lex")
			for _, kind := range []string{"expression", "generic"} {
				g := &lexGen{kind: kind, r: r}
				for i := 0; i < cfg.N(3000, 200000); i++ {
					s := lexText(g.sequence(1 + r.Intn(20)))
					m := strconv.Itoa(r.Intn(128))
					if i%50 == 0 {
						m = "*"
					}
					emit(kind + "\x00" + m + "\x00" + s)
				}
			}
		},
		Exec: exec,
	})
	subs = append(subs, &mon.Sub{
		Name: "long-inputs", Rule: "seeded inputs of 300..1500 characters (lexeme sequences and fragment concatenations with CR LF, LF CR, U+2028/2029 and other exotic blanks), the option-free set and one seeded option set each, on the six tokenizer configurations x " + rule,
		Floor: 50,
		Gen: func(emit func(string)) {
			r := cfg.Rng(prop + "-long")
			for i := 0; i < cfg.N(300, 12000); i++ {
				var b strings.Builder
				kind := mon.Pick(r, allTokenizers)
				g := &lexGen{kind: mon.Pick(r, []string{"expression", "generic"}), r: r}
				for b.Len() < 300+r.Intn(1200) {
					if r.Bool() {
						b.WriteString(lexText(g.sequence(1 + r.Intn(6))))
					} else {
						b.WriteString(optionInput(r, kind))
					}
					b.WriteString(mon.Pick(r, []string{"\r\n", "\n", " ", "\r\n", "\n\r", "\r", "\u2028", " \t"}))
				}
				emit(kind + "\x00" + strconv.Itoa(r.Intn(128)) + "\x00" + b.String())
				emit(kind + "\x000\x00" + b.String())
			}
		},
		Exec: exec,
	})
	if withPos {
		subs = append(subs, &mon.Sub{
			Name: "huge-coordinates", Rule: "one line of 70 000 characters (a long word, then short tokens) and 66 000 short lines (not on the CSV configurations), option-free and under two option sets: columns and lines beyond 65 535 must still be reported exactly x " + rule,
			Exhaustive: true, DistinctByGen: true, Floor: 10,
			Gen: func(emit func(string)) {
				wide := strings.Repeat("w", 69990) + " 12 'q' <= x\ny 7"
				// lines that end in a blank: no state has to push a line break back (un-reading a line break makes
				// the scanner recount from the start, which is quadratic over 66 000 lines; the CSV symbol state always does)
				tall := strings.Repeat("a \n", 66000) + "zz 9 <= 'q'"
				for _, k := range allTokenizers {
					for _, m := range []string{"0", "64", "127"} {
						emit(k + "\x00" + m + "\x00" + wide)
						if !strings.HasPrefix(k, "csv") {
							emit(k + "\x00" + m + "\x00" + tall)
						}
					}
				}
			},
			Exec: exec,
		})
		subs = append(subs, c12ErrorPositions(cfg))
	}
	if !withPos {
		subs[0].Final = func(r *mon.SubReport) string {
			for _, k := range []string{"generic", "expression"} {
				for _, n := range []string{"Unknown", "Comment", "Whitespace", "Eof", "Integer", "Float", "Quoted"} {
					if r.Tables["kinds-seen-"+k][n] == 0 {
						return "patterns never produced a " + n + " token on the " + k + " tokenizer"
					}
				}
			}
			return ""
		}
	}
	_ = tokenizers.Eof
	return subs
}

var reLineCol = regexp.MustCompile(`at line (\d+) and column (\d+)`)

// c12ErrorPositions: positions quoted in syntax-error messages point at the offending token.
func c12ErrorPositions(cfg *mon.Config) *mon.Sub {
	return &mon.Sub{
		Name:  "syntax-error-positions",
		Rule:  "seeded valid expressions printed with random blanks, tabs and line breaks of all four styles between tokens, made malformed by one stray token at a known offset (an unknown symbol '@' anywhere, or an identifier / constant / ')' appended after the complete expression, or ')' / '*' put in front); the line and column quoted in the error message must be the coordinates the independent line/column model gives for the first character of that token; non-trivial = multi-line source",
		Floor: 200,
		Gen: func(emit func(string)) {
			r := cfg.Rng("c12-errpos")
			g := &exprGen{r: r}
			seps := []string{" ", "  ", "\t", "\n", "\r\n", "\n\r", "\r", " \n ", "/* c */ ", "/* a\nb */"}
			for i := 0; i < cfg.N(3000, 100000); i++ {
				toks := model.Tokens(g.typed(1+r.Intn(3), mon.Pick(r, []string{"int", "bool", "str"})), nil)
				mode := r.Intn(4)
				at := -1
				stray := ""
				if mode == 3 {
					// a stray constant after the last argument of a call: the missing ')' is reported at that token
					inner := model.Tokens(g.typed(r.Intn(2), "int"), nil)
					toks = append(append([]string{mon.Pick(r, []string{"Max", "Min", "Sum"}), "(", "a", ","}, inner...), ")")
					at = len(toks) - 1
					stray = mon.Pick(r, []string{"3", "zz", "'s'", "]"})
				}
				switch mode {
				case 0:
					at = r.Intn(len(toks) + 1)
					stray = "@"
				case 1:
					at = len(toks)
					stray = mon.Pick(r, []string{"zz", "42", ")", "'s'", "]"})
				case 2:
					at = 0
					stray = mon.Pick(r, []string{")", "*", "]", ","})
				}
				all := append(append(append([]string{}, toks[:at]...), stray), toks[at:]...)
				var b strings.Builder
				if r.Chance(1, 8) { // vertical tab / form feed in front are not trimmed by the parser
					b.WriteString(mon.Pick(r, []string{"\v", "\f", "\v\n", "\f "}))
				}
				off := 0
				for k, t := range all {
					if k > 0 {
						b.WriteString(mon.Pick(r, seps))
					}
					if k == at {
						off = len([]rune(b.String()))
					}
					b.WriteString(t)
				}
				emit(strconv.Itoa(off) + "\x00" + b.String())
			}
		},
		Exec: func(c *mon.Case) {
			i := strings.IndexByte(c.Payload, 0)
			off, _ := strconv.Atoi(c.Payload[:i])
			src := c.Payload[i+1:]
			p := parsers.NewExpressionParser()
			var err error
			if pn := mon.Try(func() { err = p.ParseString(src) }); pn != nil {
				c.Count("panic (reported by C03)")
				return
			}
			if err == nil {
				c.Count("accepted (C02's business)")
				return
			}
			m := reLineCol.FindStringSubmatch(err.Error())
			if m == nil {
				c.Count("error without a position")
				return
			}
			lines, cols := model.LCTable([]rune(src))
			wl, wc := lines[off+1], cols[off+1]
			gl, _ := strconv.Atoi(m[1])
			gc, _ := strconv.Atoi(m[2])
			if gl != wl || gc != wc {
				c.Failf("position quoted in a syntax error does not point at the offending token", "source=%q stray token at offset %d (line %d column %d), message: %v", src, off, wl, wc, err)
				return
			}
			c.Count("positions-checked")
			if strings.ContainsAny(src, "\n\r") {
				c.NonTrivial()
			}
		},
		Final: func(r *mon.SubReport) string {
			if r.Counters["positions-checked"] < r.Evaluations/2 {
				return fmt.Sprintf("only %d of %d malformed expressions produced a positioned error", r.Counters["positions-checked"], r.Evaluations)
			}
			return ""
		},
	}
}
