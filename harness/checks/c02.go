package checks

import (
	"fmt"
	"strings"

	"github.com/pip-services3-gox/pip-services3-expressions-gox/calculator"
	"github.com/pip-services3-gox/pip-services3-expressions-gox/calculator/parsers"
	ctok "github.com/pip-services3-gox/pip-services3-expressions-gox/calculator/tokenizers"
	"github.com/pip-services3-gox/pip-services3-expressions-gox/tokenizers"

	"verifharness/model"
	"verifharness/mon"
)

// C02 — the parser accepts exactly the expression grammar and rejects everything else.

func init() { mon.Register("C02", buildC02) }

var c02Vocab = []string{"1", "'s'", "a", "x", "(", ")", "[", "]", ",", "+", "-", "*", "^", "=", "<", "AND", "NOT", "IS", "NULL", "IN", "LIKE", "TRUE", "@"}
var c02Core = []string{"1", "a", "(", ")", "[", "]", "NOT", "IS", "NULL", "IN", "LIKE", "+"}

func c02Class(toks []string) string {
	has := func(set ...string) bool {
		for _, t := range toks {
			for _, s := range set {
				if strings.EqualFold(t, s) {
					return true
				}
			}
		}
		return false
	}
	switch {
	case has("["):
		return "input with '['"
	case has("IS", "NULL", "LIKE", "IN"):
		return "input with a multi-token operator keyword"
	case has(","):
		return "input with an argument list"
	}
	return "other input"
}

// payload: token string, single blanks
func c02Exec(c *mon.Case) {
	src := c.Payload
	toks := strings.Split(src, " ")
	et := etoks(toks)
	strict := model.ParseTokens(et, false)
	var lenient *model.Node
	if strict == nil {
		lenient = model.ParseTokens(et, true)
	}
	p := parsers.NewExpressionParser()
	var err error
	if pn := mon.Try(func() { err = p.ParseString(src) }); pn != nil {
		c.FailPanic("ParseString", pn)
		return
	}
	switch {
	case strict != nil:
		if err != nil {
			c.Failf("a sentence of the grammar is rejected ("+c02Class(toks)+")", "source=%q: %v", src, err)
			return
		}
		got := gotProgram(p.ResultTokens())
		want := wantProgram(strict, true)
		if !sameProgram(got, want) && !(model.HasSignOverIndex(strict) && sameProgram(got, wantProgram(strict, false))) {
			c.Failf("a sentence is compiled to something else than the post-order of its syntax tree", "source=%q\nwant %v\ngot  %v", src, want, got)
			return
		}
		c.NonTrivial()
		c.Count("accepted-sentences")
	case lenient != nil:
		c.Unspecified("trailing comma in an argument list")
	default:
		if err == nil {
			c.Failf("a token sequence that is not a sentence is accepted ("+c02Class(toks)+")", "source=%q compiled to %v", src, gotProgram(p.ResultTokens()))
			return
		}
		if errCode(err) == "" || errCode(err) == "?" {
			c.Failf("a syntax error does not carry an error code", "source=%q: %T %v", src, err, err)
			return
		}
		c.NonTrivial()
		c.Count("rejected-non-sentences")
		c.Mark("error-codes", errCode(err))
	}
}

func toksOf(ts []*tokenizers.Token) string {
	var b strings.Builder
	for _, t := range ts {
		b.WriteString(tok{t.Type(), t.Value(), t.Line(), t.Column()}.String() + " ")
	}
	return b.String()
}

func buildC02(cfg *mon.Config) []*mon.Sub {
	oracle := "oracle: a tabular (span-memoised, all-splits) reference parser for the grammar of the precedence table; a sentence must be accepted and compiled to the post-order of its unique tree, every other non-empty sequence must be rejected with an error that carries a code, never a panic; only a trailing comma before ')' is left open; non-trivial = the verdict was determined (all cases distinct by construction)"
	full := cfg.N(4, 5)
	core := cfg.N(5, 7)
	exhFull := &mon.Sub{
		Name: "exhaustive-full-vocabulary", Rule: fmt.Sprintf("every token sequence of length 1..%d over the %d-symbol vocabulary %v, rendered with single blanks; ", full, len(c02Vocab), c02Vocab) + oracle,
		Exhaustive: true, DistinctByGen: true, Floor: 1000,
		Gen: func(emit func(string)) {
			enumStrings(c02Vocab, full, func(parts []string) {
				if len(parts) > 0 {
					emit(strings.Join(parts, " "))
				}
			})
		},
		Exec: c02Exec,
		Final: func(r *mon.SubReport) string {
			if r.Counters["accepted-sentences"] == 0 || r.Counters["rejected-non-sentences"] == 0 {
				return "no accepted or no rejected sequence observed"
			}
			return ""
		},
	}
	exhCore := &mon.Sub{
		Name: "exhaustive-core-vocabulary", Rule: fmt.Sprintf("every token sequence of length %d..%d over the 12 symbols %v that carry brackets and the multi-token operators; ", full+1, core, c02Core) + oracle,
		Exhaustive: true, DistinctByGen: true, Floor: 1000,
		Gen: func(emit func(string)) {
			enumStrings(c02Core, core, func(parts []string) {
				if len(parts) > full {
					emit(strings.Join(parts, " "))
				}
			})
		},
		Exec: c02Exec,
	}
	mut := &mon.Sub{
		Name: "mutated-valid-expressions", Rule: "seeded valid expressions from the C01 generators (depth <= 5), printed minimally, then mutated at token level (insert, delete, replace, swap, duplicate one token; repeat in place, remove or move a run of 2-5 tokens; 1-2 mutations) with tokens of the full vocabulary plus <>, <=, >>, %, /, OR, XOR, f, 2.5; " + oracle + "; distinct by hash",
		Floor: 1000,
		Gen: func(emit func(string)) {
			r := cfg.Rng("c02-mutation")
			g := &exprGen{r: r}
			extra := append(append([]string{}, c02Vocab...), "<>", "<=", ">>", "%", "/", "OR", "XOR", "f", "2.5", "!=", "not", "is", "null")
			for i := 0; i < cfg.N(15000, 400000); i++ {
				var t *model.Node
				if r.Bool() {
					t = g.shape(1 + r.Intn(4))
				} else {
					t = g.typed(1+r.Intn(4), mon.Pick(r, []string{"int", "bool", "str"}))
				}
				toks := model.Tokens(t, nil)
				if i%10 != 0 { // every tenth stays valid
					for m := 1 + r.Intn(2); m > 0 && len(toks) > 0; m-- {
						k := r.Intn(len(toks))
						switch r.Intn(8) {
						case 5, 6, 7: // a whole run of tokens is repeated in place, removed, or moved (e.g. a second index, a second argument list, a second postfix test)
							n := 2 + r.Intn(4)
							if k+n > len(toks) {
								n = len(toks) - k
							}
							seg := append([]string{}, toks[k:k+n]...)
							switch r.Intn(3) {
							case 0:
								toks = append(append(append([]string{}, toks[:k+n]...), seg...), toks[k+n:]...)
							case 1:
								toks = append(append([]string{}, toks[:k]...), toks[k+n:]...)
							default:
								rest := append(append([]string{}, toks[:k]...), toks[k+n:]...)
								j := r.Intn(len(rest) + 1)
								toks = append(append(append([]string{}, rest[:j]...), seg...), rest[j:]...)
							}
						case 0:
							toks = append(toks[:k], append([]string{mon.Pick(r, extra)}, toks[k:]...)...)
						case 1:
							toks = append(toks[:k], toks[k+1:]...)
						case 2:
							toks[k] = mon.Pick(r, extra)
						case 3:
							j := r.Intn(len(toks))
							toks[k], toks[j] = toks[j], toks[k]
						case 4:
							toks = append(toks[:k], append([]string{toks[k]}, toks[k:]...)...)
						}
					}
				}
				ok := len(toks) > 0
				for _, tk := range toks {
					if strings.Contains(tk, " ") { // quoted identifiers with blanks would break the single-blank rendering
						ok = false
					}
				}
				if ok {
					emit(strings.Join(toks, " "))
				}
			}
		},
		Exec: c02Exec,
	}
	tokapi := &mon.Sub{
		Name: "token-api", Rule: "seeded valid and mutated expressions (random spacing and comments) are tokenized by a real expression tokenizer (whitespace tokens kept, comments and end marker skipped, strings decoded) and given to ParseTokens; the verdict and the compiled program must equal those of ParseString on the text, also when the same token slice is compiled a second time, when it is then handed to a calculator's SetOriginalTokens, the caller's slice must be left untouched, and the same list followed by an end-of-input token and further tokens must be rejected; distinct by hash",
		Floor: 500,
		Gen: func(emit func(string)) {
			r := cfg.Rng("c02-tokapi")
			g := &exprGen{r: r}
			for i := 0; i < cfg.N(4000, 200000); i++ {
				t := g.typed(1+r.Intn(4), mon.Pick(r, []string{"int", "bool", "str"}))
				src := printings(t, r.Next()%100000)[2]
				if i%4 == 0 {
					src = mutateChars(r, src, 1+r.Intn(2))
				}
				emit(src)
			}
		},
		Exec: func(c *mon.Case) {
			src := c.Payload
			ref := parsers.NewExpressionParser()
			var refErr error
			if pn := mon.Try(func() { refErr = ref.ParseString(src) }); pn != nil {
				c.Count("ParseString panicked (C03)")
				return
			}
			want := fmt.Sprintf("%s %v", errCode(refErr), gotProgram(ref.ResultTokens()))
			if refErr != nil {
				want = errCode(refErr)
			}
			tk := ctok.NewExpressionTokenizer()
			setOptions(tk, optSkipComments|optSkipEof|optDecodeStrings)
			toks := tk.TokenizeBuffer(strings.Trim(src, " \t\r\n"))
			snapshot := toksOf(toks)
			obs := func(err error, p *parsers.ExpressionParser) string {
				if err != nil {
					return errCode(err)
				}
				return fmt.Sprintf("%s %v", errCode(err), gotProgram(p.ResultTokens()))
			}
			p := parsers.NewExpressionParser()
			for pass := 1; pass <= 2; pass++ {
				var err error
				if pn := mon.Try(func() { err = p.ParseTokens(toks) }); pn != nil {
					c.FailPanic("ParseTokens", pn)
					return
				}
				if got := obs(err, p); got != want {
					c.Failf("ParseTokens differs from ParseString on the same expression"+map[int]string{1: "", 2: " (second compilation of the same token list)"}[pass], "source=%q\nParseString: %s\nParseTokens: %s", src, want, got)
					return
				}
				if toksOf(toks) != snapshot {
					c.Failf("ParseTokens modified the caller's token list", "source=%q\nbefore %s\nafter  %s", src, snapshot, toksOf(toks))
					return
				}
			}
			// a list cut by a tokenizer that keeps its end-of-input marker, with more tokens behind the marker, is no sentence
			if refErr == nil {
				tk2 := ctok.NewExpressionTokenizer()
				setOptions(tk2, optSkipComments|optDecodeStrings)
				list := append(tk2.TokenizeBuffer(strings.Trim(src, " \t\r\n")), tk.TokenizeBuffer(") * ] 7")...)
				var err3 error
				p3 := parsers.NewExpressionParser()
				if pn := mon.Try(func() { err3 = p3.ParseTokens(list) }); pn != nil {
					c.FailPanic("ParseTokens", pn)
					return
				}
				if err3 == nil {
					c.Failf("a token sequence that is not a sentence is accepted (tokens behind an end-of-input marker are ignored)", "source=%q followed by an end-of-input token and the tokens of %q: accepted as %v", src, ") * ] 7", gotProgram(p3.ResultTokens()))
					return
				}
			}
			calc := calculator.NewExpressionCalculator()
			if pn := mon.Try(func() { calc.SetOriginalTokens(toks) }); pn != nil {
				c.FailPanic("SetOriginalTokens", pn)
				return
			}
			if refErr == nil {
				if got := fmt.Sprintf(" %v", gotProgram(calc.ResultTokens())); got != want {
					c.Failf("SetOriginalTokens differs from SetExpression on the same expression", "source=%q\nwant %s\ngot  %s", src, want, got)
					return
				}
			}
			c.NonTrivial()
		},
	}
	return []*mon.Sub{exhFull, exhCore, mut, tokapi}
}
