package checks

import (
	"fmt"
	"reflect"
	"strings"

	ctok "github.com/pip-services3-gox/pip-services3-expressions-gox/calculator/tokenizers"
	"github.com/pip-services3-gox/pip-services3-expressions-gox/csv"
	rio "github.com/pip-services3-gox/pip-services3-expressions-gox/io"
	mtok "github.com/pip-services3-gox/pip-services3-expressions-gox/mustache/tokenizers"
	"github.com/pip-services3-gox/pip-services3-expressions-gox/tokenizers"
	"github.com/pip-services3-gox/pip-services3-expressions-gox/tokenizers/generic"

	"verifharness/mon"
)

// Tokenizer kinds used across the tokenizer checks.
var builtinTokenizers = []string{"generic", "expression", "csv", "mustache"}
var allTokenizers = []string{"generic", "expression", "csv", "mustache", "csvtab", "genericcpp", "csvq"}

func newTokenizer(kind string) tokenizers.ITokenizer {
	switch kind {
	case "generic":
		return generic.NewGenericTokenizer()
	case "expression":
		return ctok.NewExpressionTokenizer()
	case "csv":
		return csv.NewCsvTokenizer()
	case "csvtab":
		t := csv.NewCsvTokenizer()
		t.SetFieldSeparators([]rune{'\t', ';'})
		t.SetQuoteSymbols([]rune{'\'', '"'})
		return t
	case "csvq": // CSV whose only quote symbol is the apostrophe: '"' is ordinary data
		t := csv.NewCsvTokenizer()
		t.SetQuoteSymbols([]rune{'\''})
		return t
	case "mustache":
		return mtok.NewMustacheTokenizer()
	case "genericcpp":
		t := generic.NewGenericTokenizer()
		t.SetCommentState(generic.NewCppCommentState())
		t.SetCharacterState('/', '/', t.CommentState())
		return t
	}
	if strings.HasPrefix(kind, "csvcfg|") { // csvcfg|<separators>|<quote symbols>
		parts := strings.SplitN(kind, "|", 3)
		t := csv.NewCsvTokenizer()
		t.SetFieldSeparators([]rune(parts[1]))
		t.SetQuoteSymbols([]rune(parts[2]))
		return t
	}
	if strings.HasPrefix(kind, "statecfg|") { // statecfg|<base kind>|<op>|<op>... : a built-in tokenizer whose states were reconfigured through their public setters
		parts := strings.Split(kind, "|")
		t := newTokenizer(parts[1])
		for _, op := range parts[2:] {
			if len(op) < 4 {
				continue
			}
			arg := []rune(op[3:])
			switch op[:3] {
			case "ws-": // the character stays routed to the whitespace state but is no longer one of its characters
				if st := t.WhitespaceState(); st != nil && !reflect.ValueOf(st).IsNil() { // the CSV tokenizer has none
					st.SetWhitespaceChars(arg[0], arg[0], false)
				}
			case "wd-": // the character stays routed to the word state (or goes on inside words no longer)
				if st := t.WordState(); st != nil && !reflect.ValueOf(st).IsNil() {
					st.SetWordChars(arg[0], arg[0], false)
				}
			case "sy+": // a further multi-character symbol
				if st := t.SymbolState(); st != nil && !reflect.ValueOf(st).IsNil() {
					st.Add(string(arg), tokenizers.Symbol)
				}
			}
		}
		return t
	}
	panic("unknown tokenizer kind " + kind)
}

const (
	optSkipUnknown = 1 << iota
	optSkipWhitespaces
	optSkipComments
	optSkipEof
	optMergeWhitespaces
	optUnifyNumbers
	optDecodeStrings
)

func setOptions(t tokenizers.ITokenizer, mask int) {
	t.SetSkipUnknown(mask&optSkipUnknown != 0)
	t.SetSkipWhitespaces(mask&optSkipWhitespaces != 0)
	t.SetSkipComments(mask&optSkipComments != 0)
	t.SetSkipEof(mask&optSkipEof != 0)
	t.SetMergeWhitespaces(mask&optMergeWhitespaces != 0)
	t.SetUnifyNumbers(mask&optUnifyNumbers != 0)
	t.SetDecodeStrings(mask&optDecodeStrings != 0)
}

// setOptionsReversed reaches the same option set by another route: every option is first switched to the
// opposite of what is wanted, then the setters are called in the reverse order of setOptions.
func setOptionsReversed(t tokenizers.ITokenizer, mask int) {
	setOptions(t, ^mask&127)
	t.SetDecodeStrings(mask&optDecodeStrings != 0)
	t.SetUnifyNumbers(mask&optUnifyNumbers != 0)
	t.SetMergeWhitespaces(mask&optMergeWhitespaces != 0)
	t.SetSkipEof(mask&optSkipEof != 0)
	t.SetSkipComments(mask&optSkipComments != 0)
	t.SetSkipWhitespaces(mask&optSkipWhitespaces != 0)
	t.SetSkipUnknown(mask&optSkipUnknown != 0)
}

func optNames(mask int) string {
	names := []string{"skipUnknown", "skipWhitespaces", "skipComments", "skipEof", "mergeWhitespaces", "unifyNumbers", "decodeStrings"}
	var on []string
	for i, n := range names {
		if mask&(1<<i) != 0 {
			on = append(on, n)
		}
	}
	if len(on) == 0 {
		return "none"
	}
	return strings.Join(on, "+")
}

var tokTypeNames = []string{"Unknown", "Eof", "Eol", "Float", "Integer", "HexDecimal", "Number", "Symbol", "Quoted", "Word", "Keyword", "Whitespace", "Comment", "Special"}

func tokTypeName(t int) string {
	if t >= 0 && t < len(tokTypeNames) {
		return tokTypeNames[t]
	}
	return fmt.Sprintf("Type(%d)", t)
}

type tok struct {
	Type      int
	Value     string
	Line, Col int
}

func (t tok) String() string {
	return fmt.Sprintf("%s%q@%d:%d", tokTypeName(t.Type), t.Value, t.Line, t.Col)
}

func toksString(ts []tok) string {
	var b strings.Builder
	for i, t := range ts {
		if i > 0 {
			b.WriteByte(' ')
		}
		b.WriteString(t.String())
	}
	return b.String()
}

// maxTokens bounds a tokenization: a correct tokenizer yields at most one token
// per character plus the end marker.
func tokenizeAll(t tokenizers.ITokenizer, input string) []tok {
	t.SetReader(rio.NewStringScanner(input))
	limit := len([]rune(input)) + 3
	var out []tok
	for {
		x := t.NextToken()
		if x == nil {
			return out
		}
		out = append(out, tok{x.Type(), x.Value(), x.Line(), x.Column()})
		if len(out) > limit {
			panic(mon.NoProgress{Iter: len(out), Remaining: 0})
		}
	}
}

// installLoopMonitor installs the H1 logical-step monitor: inside one call of
// ReadNextToken every iteration of the main loop after the first must find the
// scanner further along than the previous iteration did (each iteration either
// consumes at least one character or leaves the loop).  The state is per
// scanner position only, so the monitor is goroutine safe without locks: it
// keeps the previous position in a map keyed by scanner.
func installLoopMonitor() {
	tokenizers.VerifLoopHook = func(scanner rio.IScanner, iteration int) {
		loopHookCalls.add(1)
		s, ok := scanner.(*rio.StringScanner)
		if !ok {
			return
		}
		pos, n := s.VerifPosition()
		if iteration > n+3 {
			panic(mon.NoProgress{Iter: iteration, Remaining: n - pos})
		}
		if iteration == 1 {
			return
		}
		if iteration == 2 {
			// entries of earlier calls may be stale: overwrite, never compare
			loopPrev.Store(s, pos)
			if loopHookCalls.get()%(1<<20) == 0 {
				loopPrev.Range(func(k, _ any) bool { loopPrev.Delete(k); return true })
			}
			return
		}
		prev, _ := loopPrev.Load(s)
		if p, ok := prev.(int); ok && pos <= p {
			loopPrev.Delete(s)
			panic(mon.NoProgress{Iter: iteration, Remaining: n - pos})
		}
		loopPrev.Store(s, pos)
		loopHookMulti.add(1)
	}
}
