package checks

import (
	"fmt"
	"math"
	"regexp"
	"strconv"
	"strings"
	"time"

	"github.com/pip-services3-gox/pip-services3-expressions-gox/variants"

	"verifharness/mon"
)

// C07 — variant conversions deliver the requested type and round-trip losslessly.

func init() { mon.Register("C07", buildC07) }

var reDecimal = regexp.MustCompile(`^[+-]?[0-9]{1,18}$`)
var reFloatLit = regexp.MustCompile(`^[+-]?[0-9]{1,15}(\.[0-9]{1,30})?$`)

func manager(name string) variants.IVariantOperations {
	if name == "safe" {
		return variants.NewTypeSafeVariantOperations()
	}
	return variants.NewTypeUnsafeVariantOperations()
}

var allTags = []string{"N", "I", "L", "F", "D", "S", "B", "T", "P", "O", "A"}

var safeWhitelist = map[string]bool{"I>L": true, "I>F": true, "I>D": true, "L>F": true, "L>D": true, "F>D": true}

// roundTrips says whether v -> T -> type(v) must give v back.
func roundTrips(v Val, T string) bool {
	abs := func(i int64) float64 { return math.Abs(float64(i)) }
	within := func(i int64, bound int64) bool { return i >= -bound && i <= bound }
	switch v.T + ">" + T {
	case "I>L", "L>I":
		return true
	case "I>D", "L>D":
		return within(v.Long(), 1<<53)
	case "I>F", "L>F":
		return within(v.Long(), 1<<24)
	case "F>D":
		return true
	case "B>I", "B>L", "B>F", "B>D", "B>S":
		return true
	case "I>P", "L>P":
		return abs(v.Long()) <= float64(math.MaxInt64/1000000)
	case "P>L", "P>I":
		return v.Span()%time.Millisecond == 0
	case "I>T", "L>T":
		return abs(v.Long()) <= 1e15
	case "T>L", "T>I":
		return v.Time().Nanosecond() == 0 && abs(v.Time().Unix()) <= 1e15
	case "I>S", "L>S":
		return true
	}
	return false
}

func sameValue(a, b Val) bool {
	if a.T == "T" && b.T == "T" {
		return a.Time().Equal(b.Time()) // the same instant
	}
	if a.T == "F" && b.T == "F" && a.Float() != a.Float() {
		return b.Float() != b.Float()
	}
	return a.Same(b)
}

func c07Exec(c *mon.Case) {
	parts := strings.SplitN(c.Payload, "\x00", 3)
	mgr, T := parts[0], parts[1]
	v := decVals(parts[2])[0]
	ops := manager(mgr)
	in := v.Variant()
	var res *variants.Variant
	var err error
	if p := mon.Try(func() { res, err = ops.Convert(in, tagType[T]) }); p != nil {
		c.FailPanic(mgr+" Convert", p)
		return
	}
	desc := fmt.Sprintf("%s manager Convert(%s, %s)", mgr, v, typeNames[T])
	if (res == nil) == (err == nil) {
		c.Failf(mgr+" Convert returns neither or both of result and error", "%s -> result=%v err=%v", desc, res, err)
		return
	}
	if after := snap(in); !after.Same(v) {
		c.Failf(mgr+" Convert modified its operand", "%s: operand is now %s", desc, after)
		return
	}
	key := v.T + ">" + T
	if T == "N" {
		// whether Null is an admissible target is left open; but a successful conversion must deliver a Null
		// value, and a fresh one (modifying it must not show in later conversions)
		if err == nil {
			if s := snap(res); s.T != "N" {
				c.Failf(mgr+" Convert succeeds with a value of another type than requested", "%s -> %s", desc, s)
				return
			}
			if res != in {
				res.SetAsInteger(42)
			}
			var r2 *variants.Variant
			var e2 error
			if p := mon.Try(func() { r2, e2 = ops.Convert(v.Variant(), variants.Null) }); p != nil || e2 != nil || snap(r2).T != "N" {
				c.Failf(mgr+" Convert to Null hands out a shared value", "%s, result modified by the caller, then again -> %v (%v)", desc, snap(r2), e2)
				return
			}
		}
		c.Unspecified("target type Null (admissibility)")
		return
	}
	if mgr == "safe" {
		allowed := safeWhitelist[key] || T == v.T || T == "O"
		if err == nil && !allowed {
			c.Failf("type-safe manager converts outside its whitelist", "%s succeeded with %s", desc, snap(res))
			return
		}
		if err != nil && allowed {
			c.Failf("type-safe manager rejects a permitted conversion", "%s failed: %v", desc, err)
			return
		}
	}
	if err != nil {
		c.Count("conversion-error")
		return
	}
	got := snap(res)
	if T == "O" || T == v.T {
		if !got.Same(v) {
			c.Failf(mgr+" Convert to Object or to the value's own type does not return the value unchanged", "%s -> %s", desc, got)
		}
		return
	}
	if got.T != T {
		c.Failf(mgr+" Convert succeeds with a value of another type than requested", "%s -> %s", desc, got)
		return
	}
	// a string of decimal digits denotes its decimal value
	if v.T == "S" && (T == "I" || T == "L") && reDecimal.MatchString(v.V) {
		if n, perr := strconv.ParseInt(v.V, 10, 64); perr == nil && got.Long() != n {
			c.Failf("a decimal integer string is not converted to the number it spells", "%s -> %s, expected %d", desc, got, n)
			return
		}
	}
	if v.T == "S" && (T == "D" || T == "F") && reFloatLit.MatchString(v.V) {
		if f, perr := strconv.ParseFloat(v.V, 64); perr == nil {
			ok := (T == "D" && sameFloat(got.Double(), f)) || (T == "F" && sameFloat(float64(got.Float()), float64(float32(f))))
			if !ok {
				c.Failf("a decimal number string is not converted to the number it spells", "%s -> %s, expected %v", desc, got, f)
				return
			}
		}
	}
	// a text that is a duration literal of the host language denotes that duration
	if v.T == "S" && T == "P" {
		if d, perr := time.ParseDuration(v.V); perr == nil && got.Span() != d {
			c.Failf("a duration text is not converted to the time span it spells", "%s -> %s, expected %s", desc, got, vSpan(d))
			return
		}
	}
	// numeric widenings have an exact meaning in the host language
	wide := map[string]Val{}
	switch v.T {
	case "I", "L":
		wide["L"], wide["F"], wide["D"] = vLong(v.Long()), vFloat(float32(v.Long())), vDouble(float64(v.Long()))
	case "F":
		wide["D"] = vDouble(float64(v.Float()))
	}
	if w, ok := wide[T]; ok && !(v.T == "L" && T == "L") && !sameValue(got, w) && !(got.T == "D" && w.T == "D" && sameFloat(got.Double(), w.Double())) {
		c.Failf("numeric widening "+typeNames[v.T]+" -> "+typeNames[T]+" does not deliver the correctly rounded value", "%s -> %s, expected %s", desc, got, w)
		return
	}
	// date-times count whole Unix seconds, time spans whole milliseconds (the second / millisecond the value lies in)
	switch key {
	case "T>I", "T>L":
		if got.Long() != v.Time().Unix() {
			c.Failf("a date-time is not converted to its Unix second", "%s -> %s, expected %d", desc, got, v.Time().Unix())
			return
		}
	case "I>T", "L>T":
		if math.Abs(float64(v.Long())) <= 1e15 && !got.Time().Equal(time.Unix(v.Long(), 0)) {
			c.Failf("a count of Unix seconds is not converted to that instant", "%s -> %s, expected %s", desc, got, vTime(time.Unix(v.Long(), 0).UTC()))
			return
		}
	case "P>I", "P>L":
		if got.Long() != int64(v.Span()/time.Millisecond) {
			c.Failf("a time span is not converted to its whole milliseconds", "%s -> %s, expected %d", desc, got, int64(v.Span()/time.Millisecond))
			return
		}
	case "I>P", "L>P":
		if math.Abs(float64(v.Long())) <= float64(math.MaxInt64/1000000) && got.Span() != time.Duration(v.Long())*time.Millisecond {
			c.Failf("a count of milliseconds is not converted to that time span", "%s -> %s, expected %s", desc, got, vSpan(time.Duration(v.Long())*time.Millisecond))
			return
		}
	}
	c.NonTrivial()
	c.Mark("conversions-exercised", mgr+":"+key)
	if mgr == "safe" {
		var r2 *variants.Variant
		var e2 error
		if p := mon.Try(func() { r2, e2 = manager("unsafe").Convert(v.Variant(), tagType[T]) }); p != nil || e2 != nil || !sameValue(snap(r2), got) {
			c.Failf("type-safe and type-unsafe manager disagree on a conversion both perform", "%s -> %s, unsafe manager -> %v / %v", desc, got, snap(r2), e2)
		}
		return
	}
	if roundTrips(v, T) {
		var back *variants.Variant
		var e2 error
		if p := mon.Try(func() { back, e2 = ops.Convert(res, tagType[v.T]) }); p != nil {
			c.FailPanic(mgr+" Convert (back)", p)
			return
		}
		if e2 != nil || back == nil || !sameValue(snap(back), v) {
			c.Failf("conversion "+typeNames[v.T]+" -> "+typeNames[T]+" -> "+typeNames[v.T]+" does not round-trip", "%s -> %s -> %v (err %v), want %s", desc, got, snap(back), e2, v)
			return
		}
		c.Mark("round-trips-exercised", key)
	}
}

func buildC07(cfg *mon.Config) []*mon.Sub {
	if loc, err := time.LoadLocation(c08Zone); err == nil {
		time.Local = loc // see C08: local time is not accidentally UTC
	}
	emitAll := func(emit func(string), v Val) {
		j := encVals(v)
		for _, m := range []string{"unsafe", "safe"} {
			for _, T := range allTags {
				emit(m + "\x00" + T + "\x00" + j)
			}
		}
	}
	rule := "x 11 target types x {type-unsafe, type-safe} manager; oracle: exactly one of result/error; operand untouched; result type = requested type (the unchanged value for Object / own type); type-safe manager succeeds exactly on {Integer->Long/Float/Double, Long->Float/Double, Float->Double} (plus identity/Object) and agrees with the unsafe one there; for the unsafe manager every chain v->T->type(v) for which a lossless round trip is defined (integer<->long, integer/long<->double within 2^53, <->float within 2^24, float->double, boolean<->numeric/string, integer/long<->time span in ms, integer/long<->date-time in Unix seconds, integer/long->string) must return v; non-trivial = a successful conversion to a different type"
	pool := &mon.Sub{
		Name: "pool-all-targets", Rule: "every value of the boundary pool (" + fmt.Sprint(len(valuePool())) + " values of all 11 types) " + rule,
		Exhaustive: true, DistinctByGen: true, Floor: 500,
		Gen: func(emit func(string)) {
			for _, v := range valuePool() {
				emitAll(emit, v)
			}
		},
		Exec: c07Exec,
		Final: func(r *mon.SubReport) string {
			for _, k := range []string{"I>L", "L>I", "I>D", "L>D", "F>D", "B>I", "B>D", "I>P", "L>P", "P>L", "I>T", "L>T", "T>L", "I>S", "L>S", "B>S"} {
				if r.Tables["round-trips-exercised"][k] == 0 {
					return "round trip " + k + " was never exercised successfully"
				}
			}
			return ""
		},
	}
	rnd := &mon.Sub{
		Name: "random-all-targets", Rule: "seeded random values of every type (ints over the whole range incl. powers of two, floats from random bit patterns, strings that look like numbers, whole and fractional time spans and instants, nested arrays) " + rule + "; distinct by hash",
		Floor: 500,
		Gen: func(emit func(string)) {
			r := cfg.Rng("c07-random")
			for i := 0; i < cfg.N(3000, 300000); i++ {
				emitAll(emit, randomVal(r, 0))
			}
		},
		Exec: c07Exec,
	}
	reuse := &mon.Sub{
		Name:  "one-manager-many-conversions",
		Rule:  "seeded sequences of 4..40 conversions (values from the pool, a small set of colliding strings and numbers, every target type) performed on ONE manager instance (and, for half of the steps, on one re-used variant that is given its next value by Assign); after every step the outcome (type, value, error-ness) must equal that of a freshly constructed manager converting a freshly built value, and every result the caller received in earlier steps (other than the operand itself) must still hold what it held; distinct by hash",
		Floor: 500,
		Gen: func(emit func(string)) {
			r := cfg.Rng("c07-reuse")
			vals := append(valuePool(), vStr("1"), vStr("2"), vStr("1"), vStr("12"), vStr("34"), vInt(12), vInt(34), vBool(true), vObj(0), vArr(vInt(1)))
			for i := 0; i < cfg.N(6000, 400000); i++ {
				n := 4 + r.Intn(37)
				var b strings.Builder
				b.WriteString(mon.Pick(r, []string{"unsafe", "safe"}))
				small := r.Chance(1, 2)
				for k := 0; k < n; k++ {
					v := mon.Pick(r, vals)
					if small {
						v = vals[len(vals)-10+r.Intn(10)]
					}
					T := mon.Pick(r, allTags)
					if small {
						T = mon.Pick(r, []string{"I", "L", "F", "D", "S"})
					}
					b.WriteString("\x00" + T + mon.Pick(r, []string{"n", "a"}) + encVals(v))
				}
				emit(b.String())
			}
		},
		Exec: func(c *mon.Case) {
			parts := strings.Split(c.Payload, "\x00")
			mgr := manager(parts[0])
			reused := variants.EmptyVariant()
			var trace []string
			var kept []*variants.Variant
			var keptSnap []string
			var keptFrom []int
			for _, st := range parts[1:] {
				T, mode, v := st[:1], st[1:2], decVals(st[2:])[0]
				in := v.Variant()
				if mode == "a" && v.T != "A" { // the same variant object, given its value by Assign
					reused.Assign(in)
					in = reused
				}
				var lastResult *variants.Variant
				obs := func(m variants.IVariantOperations, x *variants.Variant) string {
					var r *variants.Variant
					var err error
					if p := mon.Try(func() { r, err = m.Convert(x, tagType[T]) }); p != nil {
						return "PANIC " + p.Sig()
					}
					lastResult = r
					if err != nil {
						return "error " + errCode(err)
					}
					s := snap(r).String()
					if r != nil && T == "S" {
						s += " / String()=" + r.String()
					}
					return s
				}
				trace = append(trace, fmt.Sprintf("Convert(%s, %s)%s", v, typeNames[T], map[string]string{"a": " on a re-used variant", "n": ""}[mode]))
				got := obs(mgr, in)
				justAdded := -1
				if lastResult != nil && lastResult != in && lastResult != reused {
					justAdded = len(kept)
					kept = append(kept, lastResult) // the caller keeps the results
					keptSnap = append(keptSnap, snap(lastResult).String())
					keptFrom = append(keptFrom, len(trace))
				}
				for k, r := range kept {
					if k == justAdded {
						continue
					}
					if now := snap(r).String(); now != keptSnap[k] {
						c.Failf(parts[0]+" manager: a result handed out earlier is altered by a later conversion", "sequence: %s\nthe result of step %d was %s and is now %s", strings.Join(trace, "; "), keptFrom[k], keptSnap[k], now)
						return
					}
				}
				want := obs(manager(parts[0]), v.Variant())
				if got != want {
					c.Failf(parts[0]+" manager: a conversion depends on what the manager (or the variant) was used for before", "sequence: %s\nfresh manager and value: %s\nre-used:                 %s", strings.Join(trace, "; "), want, got)
					return
				}
			}
			c.NonTrivial()
		},
	}
	special := &mon.Sub{
		Name: "date-times-in-a-summer-time-zone-and-odd-objects", Rule: "(a) the process zone and the values' zone are Europe/Berlin (embedded tz database): instants every 15 minutes within three hours of every switch to and from summer time 2015..2030, with 0, 1 and 500 000 000 nanoseconds, converted to Integer and Long by the type-unsafe manager must give the Unix second of the instant, and back the same instant; (b) objects that are typed nil pointers, a nil error value inside an interface, and arrays holding a position without a variant are converted to every target by both managers: exactly one of result and error, a result of exactly the requested type, the operand left as it was (a position without a variant stays one), safe and unsafe manager in agreement where both succeed",
		Exhaustive: true, DistinctByGen: true, Floor: 100,
		Gen: func(emit func(string)) {
			for y := 2015; y <= 2030; y++ {
				for _, m := range []time.Month{time.March, time.October} {
					emit(fmt.Sprintf("dst %d %d", y, int(m)))
				}
			}
			for k := 0; k < 5; k++ {
				for _, T := range allTags {
					emit(fmt.Sprintf("odd %d %s", k, T))
				}
			}
		},
		Exec: func(c *mon.Case) {
			c.NonTrivial()
			var y, m, k int
			var T string
			if n, _ := fmt.Sscanf(c.Payload, "dst %d %d", &y, &m); n == 2 {
				loc, err := time.LoadLocation("Europe/Berlin")
				if err != nil {
					c.Count("no tz database")
					return
				}
				sw := time.Date(y, time.Month(m), lastSunday(y, time.Month(m)), 1, 0, 0, 0, time.UTC) // both switches happen at 01:00 UTC
				ops := manager("unsafe")
				for q := -12; q <= 12; q++ {
					for _, ns := range []int{0, 1, 500000000} {
						t := sw.Add(time.Duration(q)*15*time.Minute + time.Duration(ns)).In(loc)
						for _, target := range []variants.VariantType{variants.Integer, variants.Long} {
							var r, back *variants.Variant
							var e1, e2 error
							if p := mon.Try(func() {
								if r, e1 = ops.Convert(variants.VariantFromDateTime(t), target); e1 == nil {
									back, e2 = ops.Convert(r, variants.DateTime)
								}
							}); p != nil {
								c.FailPanic("unsafe Convert", p)
								return
							}
							if e1 != nil || r == nil || snap(r).Long() != t.Unix() {
								c.Failf("a date-time is not converted to its Unix second", "Convert(%s in Europe/Berlin, %v) -> %v %v, expected %d", t.Format(time.RFC3339Nano), target, snap(r), e1, t.Unix())
								return
							}
							if ns == 0 && (e2 != nil || back == nil || !back.AsDateTime().Equal(t)) {
								c.Failf("conversion DateTime -> Long -> DateTime does not round-trip", "%s in Europe/Berlin -> %v -> %v (%v)", t.Format(time.RFC3339Nano), snap(r), snap(back), e2)
								return
							}
						}
					}
				}
				c.AddEvals(149, 149)
				return
			}
			fmt.Sscanf(c.Payload, "odd %d %s", &k, &T)
			mk := func() *variants.Variant {
				switch k {
				case 0:
					return variants.NewVariant((*int)(nil))
				case 1:
					return variants.NewVariant((*opaque)(nil))
				case 2:
					var e error = (*customErr)(nil)
					return variants.NewVariant(e)
				case 3:
					return variants.VariantFromArray([]*variants.Variant{nil})
				}
				return variants.VariantFromArray([]*variants.Variant{variants.VariantFromInteger(1), nil, variants.VariantFromString("three")})
			}
			shape := func(v *variants.Variant) string {
				s := fmt.Sprintf("type %d", v.Type())
				if v.Type() == variants.Array {
					for _, e := range v.AsArray() {
						s += " " + snap(e).String()
					}
				}
				return s
			}
			var results [2]*variants.Variant
			var errs [2]error
			for i, mn := range []string{"unsafe", "safe"} {
				in := mk()
				before := shape(in)
				if p := mon.Try(func() { results[i], errs[i] = manager(mn).Convert(in, tagType[T]) }); p != nil {
					c.FailPanic(mn+" Convert", p)
					return
				}
				desc := fmt.Sprintf("%s manager Convert(odd value #%d [%s], %s)", mn, k, before, typeNames[T])
				if (results[i] == nil) == (errs[i] == nil) {
					c.Failf(mn+" Convert returns neither or both of result and error", "%s -> result=%v err=%v", desc, results[i], errs[i])
					return
				}
				if after := shape(in); after != before {
					c.Failf(mn+" Convert modified its operand", "%s: operand is now [%s]", desc, after)
					return
				}
				if errs[i] == nil && T != "O" && results[i].Type() != tagType[T] {
					c.Failf(mn+" Convert succeeds with a value of another type than requested", "%s -> type %d", desc, results[i].Type())
					return
				}
			}
			if errs[0] == nil && errs[1] == nil && shape(results[0]) != shape(results[1]) {
				c.Failf("type-safe and type-unsafe manager disagree on a conversion both perform", "odd value #%d to %s: unsafe [%s], safe [%s]", k, typeNames[T], shape(results[0]), shape(results[1]))
			}
		},
	}
	return []*mon.Sub{pool, rnd, reuse, special}
}
