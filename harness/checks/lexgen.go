package checks

import (
	"fmt"
	"strings"
	"unicode/utf8"

	"github.com/pip-services3-gox/pip-services3-expressions-gox/tokenizers"

	"verifharness/mon"
)

// Lexeme generators for the generic and the expression tokenizer, written from
// the lexical grammars in the property statement (C13) and DESIGN.md.

type lex struct {
	Type int
	Text string
}

func encLex(ls []lex) string {
	var b strings.Builder
	for _, l := range ls {
		fmt.Fprintf(&b, "%02d%06d", l.Type, len(l.Text))
		b.WriteString(l.Text)
	}
	return b.String()
}

func decLex(s string) []lex {
	var out []lex
	for len(s) >= 8 {
		var t, n int
		fmt.Sscanf(s[:2], "%d", &t)
		fmt.Sscanf(s[2:8], "%d", &n)
		out = append(out, lex{t, s[8 : 8+n]})
		s = s[8+n:]
	}
	return out
}

func lexText(ls []lex) string {
	var b strings.Builder
	for _, l := range ls {
		b.WriteString(l.Text)
	}
	return b.String()
}

func lexString(ls []lex) string {
	var b strings.Builder
	for i, l := range ls {
		if i > 0 {
			b.WriteByte(' ')
		}
		fmt.Fprintf(&b, "%s%q", tokTypeName(l.Type), l.Text)
	}
	return b.String()
}

var exprKeywords = []string{"AND", "OR", "NOT", "XOR", "LIKE", "IS", "IN", "NULL", "TRUE", "FALSE"}
var exprMultiSymbols = []string{"<=", ">=", "<>", "!=", ">>", "<<"}
var genericMultiSymbols = []string{"<>", "<=", ">="}
var exprSingleSymbols = []string{"(", ")", "[", "]", "+", "-", "*", "/", "%", "^", "=", "<", ">", ",", "!", "@", "$", "&", "|", "~", ";", ":", "?", "{", "}", "\\", "`", "#", ".", "ш", "€", "Ω", "中", "￾", "\u00a0", "\u0085", "\u007f", "\u2028", "\u2029", "\u3000", "\u00bf", "\u0663", "\uff15", "\u0145", "\u0165", "\u0445", "\u0425", "\u2145", "\uff25", "\uff45"}
var genericSingleSymbols = []string{"(", ")", "[", "]", "+", "-", "*", "/", "%", "^", "=", "<", ">", ",", "!", "@", "$", "&", "|", "~", ";", ":", "?", "{", "}", "\\", "`", ".", "_", "¡", "§", "¿", "\u00a0", "\u0085", "\u007f"}

var latinStart = []string{"a", "b", "x", "Z", "Q", "é", "Ü", "ÿ", "À", "Å", "å", "e", "E"}
var wordCont = []string{"a", "k", "Z", "0", "7", "_", "é", "ÿ", "ш", "€", "中", "￾", "Ā"}
var nonLatinStart = []string{"ш", "Ж", "€", "Ω", "中", "Ā", "￾", "\u2028", "\u3000", "\u212a", "\u0663", "\u096b", "\uff15", "\u0145", "\u0165", "\u0445", "\uff25"}

type lexGen struct {
	kind string // "expression" | "generic"
	r    *mon.Rng
}

func isKeyword(s string) bool {
	u := strings.ToUpper(s)
	for _, k := range exprKeywords {
		if k == u {
			return true
		}
	}
	return false
}

// lookAlike spells an identifier that is one edit away from a keyword (a letter replaced by a digit, an underscore or
// another letter; a character inserted or appended): tru3, n0t, nul1, x0r, i5, andd, not_ ...
func (g *lexGen) lookAlike() string {
	r := g.r
	k := []rune(mon.Pick(r, exprKeywords))
	for i := range k {
		if r.Bool() {
			k[i] |= 0x20
		}
	}
	repl := []rune("0123456789_0123456789ekZé")
	switch r.Intn(4) {
	case 0, 1:
		if len(k) > 1 {
			k[1+r.Intn(len(k)-1)] = mon.Pick(r, repl)
		} else {
			k = append(k, mon.Pick(r, repl))
		}
	case 2:
		k = append(k, mon.Pick(r, repl))
	default:
		i := 1 + r.Intn(len(k))
		k = append(k[:i], append([]rune{mon.Pick(r, repl)}, k[i:]...)...)
	}
	if r.Chance(1, 3) && len(k) > 2 {
		k[1+r.Intn(len(k)-1)] = mon.Pick(r, repl)
	}
	return string(k)
}

func (g *lexGen) ident() lex {
	r := g.r
	for {
		var b strings.Builder
		if r.Chance(1, 4) {
			if s := g.lookAlike(); !isKeyword(s) {
				return lex{tokenizers.Word, s}
			}
		}
		if g.kind == "expression" {
			if r.Chance(1, 8) {
				b.WriteString("_")
			} else {
				b.WriteString(mon.Pick(r, latinStart))
			}
		} else {
			if r.Chance(1, 3) {
				b.WriteString(mon.Pick(r, nonLatinStart))
			} else {
				b.WriteString(mon.Pick(r, latinStart))
			}
		}
		for i := r.Intn(6); i > 0; i-- {
			if g.kind == "generic" && r.Chance(1, 10) {
				b.WriteString("-")
			} else {
				b.WriteString(mon.Pick(r, wordCont))
			}
		}
		s := b.String()
		if g.kind == "expression" && isKeyword(s) {
			continue
		}
		return lex{tokenizers.Word, s}
	}
}

func (g *lexGen) keyword() lex {
	k := []byte(mon.Pick(g.r, exprKeywords))
	for i := range k {
		if g.r.Bool() {
			k[i] |= 0x20
		}
	}
	return lex{tokenizers.Keyword, string(k)}
}

func (g *lexGen) digits(min int) string {
	n := min + g.r.Intn(4)
	b := make([]byte, n)
	for i := range b {
		b[i] = byte('0' + g.r.Intn(10))
	}
	return string(b)
}

func (g *lexGen) number() lex {
	r := g.r
	sign := ""
	if g.kind == "generic" && r.Chance(1, 3) {
		sign = "-"
	}
	if r.Chance(1, 20) {
		// very long digit runs are still integers
		n := 15 + r.Intn(30)
		b := make([]byte, n)
		for i := range b {
			b[i] = byte('0' + r.Intn(10))
		}
		return lex{tokenizers.Integer, sign + string(b)}
	}
	switch r.Intn(6) {
	case 0, 1:
		return lex{tokenizers.Integer, sign + g.digits(1)}
	case 2:
		return lex{tokenizers.Float, sign + g.digits(1) + "." + g.digits(1)}
	case 3:
		return lex{tokenizers.Float, sign + "." + g.digits(1)}
	case 4:
		return lex{tokenizers.Float, sign + g.digits(1) + "."}
	}
	if g.kind == "generic" {
		return lex{tokenizers.Integer, sign + g.digits(1)}
	}
	mant := g.digits(1)
	switch r.Intn(4) { // every shape of mantissa can carry an exponent: 12, 12.5, .5, 12.
	case 0:
		mant += "." + g.digits(1)
	case 1:
		mant = "." + g.digits(1)
	case 2:
		mant += "."
	}
	e := mon.Pick(r, []string{"e", "E", "e-", "E-", "e+", "E+"})
	return lex{tokenizers.Float, mant + e + g.digits(1)}
}

var strBody = []string{"a", "b c", " ", "\n", "\r\n", "é", "ш", "€", "😀", ",", "/*", "*/", "#", "1", "-", "{{"}

func (g *lexGen) quoted() lex {
	r := g.r
	q := "'"
	typ := tokenizers.Quoted
	if r.Chance(1, 3) {
		q = "\""
		if g.kind == "expression" {
			typ = tokenizers.Word
		}
	}
	other := "\""
	if q == "\"" {
		other = "'"
	}
	var b strings.Builder
	b.WriteString(q)
	for i := r.Intn(5); i > 0; i-- {
		switch {
		case r.Chance(1, 6):
			b.WriteString(other)
		case g.kind == "expression" && r.Chance(1, 5):
			b.WriteString(q + q) // doubled-quote escape
		default:
			b.WriteString(mon.Pick(r, strBody))
		}
	}
	b.WriteString(q)
	return lex{typ, b.String()}
}

func (g *lexGen) comment() lex {
	r := g.r
	var b strings.Builder
	if g.kind == "expression" {
		b.WriteString("/*")
		for i := r.Intn(4); i > 0; i-- {
			b.WriteString(mon.Pick(r, []string{"c", " ", "\n", "*", "/ ", "'", "\"", "é", "ш", "1", "x y", "/", "\u042a/", "\u212a/", "\u222a/", "\uff0a/", "\u012a/", "**", "* ", "\u042f", "\u022f*", "//"}))
		}
		s := strings.ReplaceAll(b.String()[2:], "*/", "* /")
		if strings.HasPrefix(s, "/") { // "/*/" is not a closed comment
			s = " " + s
		}
		return lex{tokenizers.Comment, "/*" + s + "*/"}
	}
	b.WriteString("#")
	for i := r.Intn(4); i > 0; i-- {
		b.WriteString(mon.Pick(r, []string{"c", " ", "*", "/", "'", "\"", "é", "ш", "1", "x y", "#"}))
	}
	return lex{tokenizers.Comment, b.String()}
}

func (g *lexGen) whitespace() lex {
	var b strings.Builder
	for i := 1 + g.r.Intn(3); i > 0; i-- {
		b.WriteString(mon.Pick(g.r, []string{" ", " ", "\t", "\n", "\r", "\r\n", "\n\r", "\x01", "\x1f"}))
	}
	return lex{tokenizers.Whitespace, b.String()}
}

func (g *lexGen) symbol() lex {
	if g.kind == "expression" {
		if g.r.Chance(1, 3) {
			return lex{tokenizers.Symbol, mon.Pick(g.r, exprMultiSymbols)}
		}
		return lex{tokenizers.Symbol, mon.Pick(g.r, exprSingleSymbols)}
	}
	if g.r.Chance(1, 3) {
		return lex{tokenizers.Symbol, mon.Pick(g.r, genericMultiSymbols)}
	}
	return lex{tokenizers.Symbol, mon.Pick(g.r, genericSingleSymbols)}
}

func firstRune(s string) rune { r, _ := utf8.DecodeRuneInString(s); return r }

func isWordish(r rune) bool {
	return r == '_' || (r >= '0' && r <= '9') || (r >= 'a' && r <= 'z') || (r >= 'A' && r <= 'Z') || (r >= 0xC0 && r <= 0xFF) || (r >= 0x100 && r <= 0xFFFE)
}

// needSep is the conservative "neighbours could merge" table.
func (g *lexGen) needSep(a, b lex) bool {
	fb := firstRune(b.Text)
	multis := exprMultiSymbols
	if g.kind == "generic" {
		multis = genericMultiSymbols
	}
	switch a.Type {
	case tokenizers.Word, tokenizers.Keyword, tokenizers.Integer, tokenizers.Float:
		if a.Type == tokenizers.Word && strings.HasPrefix(a.Text, "\"") {
			return fb == '"'
		}
		if (a.Type == tokenizers.Integer || a.Type == tokenizers.Float) && fb >= 0x80 {
			return false // a number ends at the first character that is not an ASCII digit, dot or exponent marker (e, E)
		}
		if isWordish(fb) || fb == '.' {
			return true
		}
		if g.kind == "generic" && fb == '-' {
			return true
		}
		return false
	case tokenizers.Quoted:
		return fb == firstRune(a.Text)
	case tokenizers.Symbol:
		if a.Text == "." && fb >= '0' && fb <= '9' {
			return true
		}
		if g.kind == "generic" && a.Text == "-" && ((fb >= '0' && fb <= '9') || fb == '.') {
			return true
		}
		if a.Text == "/" && (fb == '*' || fb == '/') {
			return true
		}
		if g.kind == "generic" && a.Text == "_" && false {
			return true
		}
		cand := a.Text + string(fb)
		for _, m := range multis {
			if strings.HasPrefix(m, cand) {
				return true
			}
		}
		return false
	case tokenizers.Comment:
		return g.kind == "generic" // a '#' comment runs to the end of the line
	}
	return false
}

// sequence produces n lexemes with separators inserted where neighbours could merge.
func (g *lexGen) sequence(n int) []lex {
	var out []lex
	for i := 0; i < n; i++ {
		var l lex
		switch x := g.r.Intn(16); {
		case x < 3:
			l = g.ident()
		case x < 5 && g.kind == "expression":
			l = g.keyword()
		case x < 8:
			l = g.number()
		case x < 10:
			l = g.quoted()
		case x < 11:
			l = g.comment()
		case x < 13:
			l = g.whitespace()
		default:
			l = g.symbol()
		}
		out = g.appendLex(out, l)
	}
	return out
}

func (g *lexGen) appendLex(out []lex, l lex) []lex {
	if len(out) > 0 {
		prev := out[len(out)-1]
		if prev.Type == tokenizers.Whitespace && l.Type == tokenizers.Whitespace {
			out[len(out)-1].Text += l.Text
			return out
		}
		if prev.Type != tokenizers.Whitespace && l.Type != tokenizers.Whitespace && g.needSep(prev, l) {
			sep := " "
			if g.kind == "generic" && prev.Type == tokenizers.Comment {
				sep = mon.Pick(g.r, []string{"\n", "\r\n", "\r"})
			}
			out = append(out, lex{tokenizers.Whitespace, sep})
		} else if g.kind == "generic" && prev.Type == tokenizers.Comment && l.Type == tokenizers.Whitespace {
			if c := l.Text[0]; c != '\n' && c != '\r' {
				l.Text = "\n" + l.Text
			}
		}
	}
	return append(out, l)
}
