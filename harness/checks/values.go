package checks

import (
	"encoding/json"
	"fmt"
	"math"
	"strconv"
	"strings"
	"time"

	"github.com/pip-services3-gox/pip-services3-expressions-gox/variants"

	"verifharness/mon"
)

// Val is the harness' own value model of a variant: a type tag and a payload
// kept in a form that can be written into payloads and replay files.
//
//	N null | I int | L int64 | F float32 (bits) | D float64 (bits) | S string |
//	B bool | T date-time (unix seconds, nanoseconds, zone offset) | P time span (ns) |
//	A array | O opaque object (index into objPool)
type Val struct {
	T string `json:"t"`
	V string `json:"v,omitempty"`
	E []Val  `json:"e,omitempty"`
}

type opaque struct{ id int }

var objPool = []*opaque{{0}, {1}, {2}, {0}} // #3 is another object with the content of #0

func vNull() Val        { return Val{T: "N"} }
func vInt(i int) Val    { return Val{T: "I", V: strconv.Itoa(i)} }
func vLong(i int64) Val { return Val{T: "L", V: strconv.FormatInt(i, 10)} }
func vFloat(f float32) Val {
	return Val{T: "F", V: strconv.FormatUint(uint64(math.Float32bits(f)), 16)}
}
func vDouble(f float64) Val     { return Val{T: "D", V: strconv.FormatUint(math.Float64bits(f), 16)} }
func vStr(s string) Val         { return Val{T: "S", V: s} }
func vBool(b bool) Val          { return Val{T: "B", V: map[bool]string{true: "t", false: "f"}[b]} }
func vSpan(d time.Duration) Val { return Val{T: "P", V: strconv.FormatInt(int64(d), 10)} }
func vArr(e ...Val) Val         { return Val{T: "A", E: append([]Val{}, e...)} }
func vObj(i int) Val            { return Val{T: "O", V: strconv.Itoa(i)} }
func vTime(t time.Time) Val {
	_, off := t.Zone()
	return Val{T: "T", V: fmt.Sprintf("%d:%d:%d", t.Unix(), t.Nanosecond(), off)}
}

func (v Val) Int() int    { i, _ := strconv.Atoi(v.V); return i }
func (v Val) Long() int64 { i, _ := strconv.ParseInt(v.V, 10, 64); return i }
func (v Val) Float() float32 {
	u, _ := strconv.ParseUint(v.V, 16, 32)
	return math.Float32frombits(uint32(u))
}
func (v Val) Double() float64     { u, _ := strconv.ParseUint(v.V, 16, 64); return math.Float64frombits(u) }
func (v Val) Bool() bool          { return v.V == "t" }
func (v Val) Span() time.Duration { i, _ := strconv.ParseInt(v.V, 10, 64); return time.Duration(i) }
func (v Val) Time() time.Time {
	var s, n int64
	var off int
	fmt.Sscanf(v.V, "%d:%d:%d", &s, &n, &off)
	loc := time.UTC
	if off != 0 {
		loc = time.FixedZone("", off)
	}
	return time.Unix(s, n).In(loc)
}

// Variant builds a fresh real variant holding the value.
func (v Val) Variant() *variants.Variant {
	switch v.T {
	case "N":
		return variants.EmptyVariant()
	case "I":
		return variants.VariantFromInteger(v.Int())
	case "L":
		return variants.VariantFromLong(v.Long())
	case "F":
		return variants.VariantFromFloat(v.Float())
	case "D":
		return variants.VariantFromDouble(v.Double())
	case "S":
		return variants.VariantFromString(v.V)
	case "B":
		return variants.VariantFromBoolean(v.Bool())
	case "T":
		return variants.VariantFromDateTime(v.Time())
	case "P":
		return variants.VariantFromTimeSpan(v.Span())
	case "O":
		return variants.VariantFromObject(objPool[v.Int()%len(objPool)])
	case "A":
		el := make([]*variants.Variant, len(v.E))
		for i, e := range v.E {
			el[i] = e.Variant()
		}
		return variants.VariantFromArray(el)
	}
	panic("bad Val " + v.T)
}

var typeTag = map[variants.VariantType]string{variants.Null: "N", variants.Integer: "I", variants.Long: "L", variants.Float: "F", variants.Double: "D",
	variants.String: "S", variants.Boolean: "B", variants.DateTime: "T", variants.TimeSpan: "P", variants.Object: "O", variants.Array: "A"}
var tagType = map[string]variants.VariantType{}
var typeNames = map[string]string{"N": "Null", "I": "Integer", "L": "Long", "F": "Float", "D": "Double", "S": "String", "B": "Boolean", "T": "DateTime", "P": "TimeSpan", "O": "Object", "A": "Array"}

func init() {
	for k, v := range typeTag {
		tagType[v] = k
	}
}

// snap reads a real variant back into the value model.  It is written against
// the accessors, and reports an inconsistent variant (type tag and payload that
// do not fit) as a value of type "?" instead of panicking.
func snap(x *variants.Variant) (out Val) {
	if x == nil {
		return Val{T: "nil"}
	}
	defer func() {
		if r := recover(); r != nil {
			out = Val{T: "?", V: fmt.Sprintf("type tag %d with payload %T: %v", x.Type(), x.AsObject(), r)}
		}
	}()
	switch x.Type() {
	case variants.Null:
		if x.AsObject() != nil {
			return Val{T: "?", V: fmt.Sprintf("Null type with payload %T", x.AsObject())}
		}
		return vNull()
	case variants.Integer:
		return vInt(x.AsInteger())
	case variants.Long:
		return vLong(x.AsLong())
	case variants.Float:
		return vFloat(x.AsFloat())
	case variants.Double:
		return vDouble(x.AsDouble())
	case variants.String:
		return vStr(x.AsString())
	case variants.Boolean:
		return vBool(x.AsBoolean())
	case variants.DateTime:
		return vTime(x.AsDateTime())
	case variants.TimeSpan:
		return vSpan(x.AsTimeSpan())
	case variants.Array:
		a := x.AsArray()
		if a == nil && x.AsObject() != nil {
			return Val{T: "?", V: fmt.Sprintf("Array type with payload %T", x.AsObject())}
		}
		r := Val{T: "A", E: make([]Val, len(a))}
		for i, e := range a {
			r.E[i] = snap(e)
		}
		return r
	case variants.Object:
		for i, o := range objPool {
			if x.AsObject() == any(o) {
				return vObj(i)
			}
		}
		return Val{T: "O", V: fmt.Sprintf("%T", x.AsObject())}
	}
	return Val{T: "?", V: fmt.Sprintf("unknown type tag %d", x.Type())}
}

// Same is bit-level equality of two model values (NaN equals the same NaN).
func (v Val) Same(w Val) bool {
	if v.T != w.T || v.V != w.V || len(v.E) != len(w.E) {
		return false
	}
	for i := range v.E {
		if !v.E[i].Same(w.E[i]) {
			return false
		}
	}
	return true
}

func (v Val) String() string {
	switch v.T {
	case "N":
		return "null"
	case "I":
		return "int(" + v.V + ")"
	case "L":
		return "long(" + v.V + ")"
	case "F":
		return fmt.Sprintf("float(%v)", v.Float())
	case "D":
		return fmt.Sprintf("double(%v)", v.Double())
	case "S":
		return "string(" + strconv.Quote(v.V) + ")"
	case "B":
		return "bool(" + v.V + ")"
	case "T":
		return "datetime(" + v.Time().Format(time.RFC3339Nano) + ")"
	case "P":
		return "timespan(" + v.Span().String() + ")"
	case "O":
		return "object#" + v.V
	case "A":
		var p []string
		for _, e := range v.E {
			p = append(p, e.String())
		}
		return "[" + strings.Join(p, ", ") + "]"
	}
	return v.T + "<" + v.V + ">"
}

func encVals(vs ...Val) string { b, _ := json.Marshal(vs); return string(b) }
func decVals(s string) []Val {
	var vs []Val
	json.Unmarshal([]byte(s), &vs)
	return vs
}

// ---------------------------------------------------------------- value pool

const maxInt, minInt = math.MaxInt64, math.MinInt64

func valuePool() []Val {
	t0 := time.Unix(0, 0).UTC()
	t1975 := time.Date(1975, 4, 8, 0, 0, 0, 0, time.UTC)
	tz := time.FixedZone("", 3*3600)
	p := []Val{
		vNull(),
		vInt(0), vInt(1), vInt(-1), vInt(2), vInt(3), vInt(7), vInt(-5), vInt(63), vInt(64), vInt(1 << 31), vInt(1 << 32), vInt(1<<32 + 1), vInt(1<<53 + 1), vInt(maxInt), vInt(maxInt - 1), vInt(minInt),
		vLong(0), vLong(1), vLong(-1), vLong(5), vLong(11), vLong(-13), vLong(1000), vLong(1 << 31), vLong(1<<32 + 2), vLong(1<<53 + 1), vLong(maxInt), vLong(minInt), vLong(86400),
		vFloat(0), vFloat(float32(math.Copysign(0, -1))), vFloat(1), vFloat(-1.5), vFloat(0.1), vFloat(2.5), vFloat(float32(math.Inf(1))), vFloat(float32(math.Inf(-1))), vFloat(float32(math.NaN())), vFloat(math.MaxFloat32), vFloat(math.SmallestNonzeroFloat32), vFloat(16777217),
		vDouble(0), vDouble(math.Copysign(0, -1)), vDouble(1), vDouble(-1), vDouble(0.5), vDouble(0.1), vDouble(2), vDouble(3), vDouble(-2.5), vDouble(1e10), vDouble(1e300), vDouble(math.Inf(1)), vDouble(math.Inf(-1)), vDouble(math.NaN()), vDouble(math.MaxFloat64), vDouble(math.SmallestNonzeroFloat64), vDouble(9007199254740993), vDouble(0.49999999999999994), vDouble(-0.49999999999999994), vDouble(4503599627370497), vDouble(-2.5),
		vStr(""), vStr("a"), vStr("A"), vStr("b"), vStr("abc"), vStr("10"), vStr("-3"), vStr("2.5"), vStr(" 1"), vStr("true"), vStr("é"), vStr("ш😀"), vStr("null"), vStr("1e3"), vStr("9223372036854775807"), vStr("-0"), vStr("010"), vStr("-017"), vStr("0x10"), vStr("2024-01-02T02:00:00+14:00"),
		vBool(true), vBool(false),
		vSpan(0), vSpan(time.Millisecond), vSpan(-time.Hour), vSpan(1500 * time.Microsecond), vSpan(90 * time.Second), vSpan(math.MaxInt64), vSpan(math.MinInt64),
		vTime(t0), vTime(t1975), vTime(t1975.In(tz)), vTime(time.Date(2262, 1, 1, 0, 0, 0, 0, time.UTC)), vTime(time.Date(2020, 2, 29, 23, 59, 59, 500, time.UTC)), vTime(time.Time{}), vTime(time.Date(10000, 1, 1, 0, 0, 0, 0, time.UTC)), vTime(time.Date(-1, 6, 1, 0, 0, 0, 0, time.UTC)), vTime(time.Date(2020, 2, 29, 23, 59, 59, 900, time.UTC)), vTime(time.Date(2024, 1, 2, 2, 0, 0, 0, time.FixedZone("", 14*3600))), vTime(time.Date(2023, 12, 31, 23, 30, 0, 0, time.FixedZone("", -11*3600))),
		vArr(), vArr(vInt(1), vInt(2), vInt(3)), vArr(vStr("a"), vNull(), vDouble(2)), vArr(vArr(vInt(1)), vArr()), vArr(vInt(1), vStr("x")), vArr(vLong(5), vBool(true)),
		vObj(0), vObj(1), vObj(3),
	}
	// round 4: texts that look like dates cut at various lengths, zero-padded and signed integer texts, instants just
	// below a whole second, a big base with small negative exponents, and a long list with a nested list and a NaN
	long := []Val{}
	for i := 0; i < 17; i++ {
		long = append(long, vInt(i))
	}
	long = append(long, vArr(vInt(1)), vStr("x"), vDouble(math.NaN()))
	p = append(p,
		vStr("2021-03-04T10:30"), vStr("2021-03-04T10:30:45"), vStr("2021-03-04T"), vStr("2021-03-04"), vStr("2021-03-04T10:30:45.5+02:00"),
		vStr("000009007199254740993"), vStr("+12"), vStr("00000000000000000000000042"), vStr("-000000000000000000009007199254740993"),
		vTime(time.Date(2021, 3, 4, 10, 30, 7, 999999999, time.UTC)), vTime(time.Unix(-1, 999999999).UTC()), vTime(time.Date(2021, 3, 4, 10, 30, 7, 999999500, time.UTC)), vTime(time.Date(1960, 3, 4, 10, 30, 7, 500000000, time.UTC)),
		vLong(1000000000000), vLong(-10000000000), vInt(-31), vInt(-26), vInt(-17),
		vArr(long...),
		// round 5: duration texts in every unit spelling, decimal texts a hair above a single-precision midpoint, two instants 2^64 ns apart
		vStr("250\u03bcs"), vStr("250\u00b5s"), vStr("1m0.5\u03bcs"), vStr("-2.5us"), vStr("2h45m"), vStr("1.5h"),
		vStr("16777217.000000001"), vStr("1.0000000596046447753906251"), vLong(9111111111111111), vLong(-9111111111111111), vStr("0e9999999999999999"), vDouble(math.Nextafter(1, 2)), vDouble(-math.Nextafter(1, 2)), vDouble(1+1e-10), vDouble(math.Nextafter(1, 0)), vStr("25e3"), vStr("-0e12"), vStr("1e400"), vStr("9e18"),
		vTime(time.Date(2000, 1, 1, 0, 0, 0, 0, time.UTC)), vTime(time.Date(2000, 1, 1, 0, 0, 0, 0, time.UTC).Add(1<<63-1).Add(1<<63-1).Add(2)),
	)
	return p
}

func randomVal(r *mon.Rng, depth int) Val {
	switch r.Intn(12) {
	case 0:
		return vNull()
	case 1:
		return vInt(randInt(r))
	case 2:
		return vLong(int64(randInt(r)))
	case 3:
		return vFloat(float32(randFloat(r)))
	case 4:
		return vDouble(randFloat(r))
	case 5:
		return vStr(randStr(r))
	case 6:
		return vBool(r.Bool())
	case 7:
		return vSpan(time.Duration(randInt(r)))
	case 8:
		return vTime(time.Unix(int64(r.Intn(4000000000))-1000000000, int64(r.Intn(2))*int64(r.Intn(1000000000))).UTC())
	case 9:
		if depth > 1 {
			return vInt(r.Intn(10))
		}
		n := r.Intn(4)
		e := make([]Val, n)
		for i := range e {
			e[i] = randomVal(r, depth+1)
		}
		return vArr(e...)
	case 10:
		return vInt(r.Intn(70) - 3)
	}
	return vStr(strconv.Itoa(r.Intn(100) - 10))
}

func randInt(r *mon.Rng) int {
	if r.Chance(1, 8) {
		// integers next to a float32 rounding midpoint: witnesses of double rounding via float64
		e := uint(25 + r.Intn(38))
		v := 1<<e + 1<<(e-24) + 1
		if r.Bool() {
			v = 1<<e + 3<<(e-24) - 1
		}
		if r.Bool() {
			v = -v
		}
		return v
	}
	switch r.Intn(5) {
	case 0:
		return r.Intn(20) - 10
	case 1:
		return int(int32(r.Next()))
	case 2:
		return int(r.Next())
	case 3:
		return 1 << uint(r.Intn(63))
	}
	return r.Intn(100000) - 50000
}

func randFloat(r *mon.Rng) float64 {
	switch r.Intn(5) {
	case 0:
		return float64(r.Intn(20) - 10)
	case 1:
		return (r.Float() - 0.5) * 1000
	case 2:
		return math.Float64frombits(r.Next())
	case 3:
		return math.Ldexp(r.Float(), r.Intn(200)-100)
	}
	return float64(r.Intn(1000)) / 8
}

func randStr(r *mon.Rng) string {
	pool := []string{"", "a", "B", "1", "-2", "3.5", " ", "é", "ш", "😀", "x y", "true", "false", "null", "1e2", "0x10", "ab", "abc"}
	n := r.Intn(3)
	s := mon.Pick(r, pool)
	for i := 0; i < n; i++ {
		s += mon.Pick(r, pool)
	}
	return s
}
