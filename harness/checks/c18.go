package checks

import (
	"fmt"
	ctok "github.com/pip-services3-gox/pip-services3-expressions-gox/calculator/tokenizers"
	"strconv"
	"strings"

	"github.com/pip-services3-gox/pip-services3-expressions-gox/calculator"
	"github.com/pip-services3-gox/pip-services3-expressions-gox/calculator/functions"
	"github.com/pip-services3-gox/pip-services3-expressions-gox/calculator/parsers"
	"github.com/pip-services3-gox/pip-services3-expressions-gox/calculator/variables"
	"github.com/pip-services3-gox/pip-services3-expressions-gox/mustache"
	mparsers "github.com/pip-services3-gox/pip-services3-expressions-gox/mustache/parsers"
	"github.com/pip-services3-gox/pip-services3-expressions-gox/variants"

	"verifharness/model"
	"verifharness/mon"
)

// C18 — variables are discovered exactly and names resolve case-insensitively.

func init() { mon.Register("C18", buildC18) }

// varsInOrder lists identifiers in variable position in source order.
func varsInOrder(n *model.Node, out *[]string) {
	switch n.Op {
	case "var":
		*out = append(*out, identName(n.Lit))
	default:
		for _, k := range n.Kids {
			varsInOrder(k, out)
		}
	}
}

func dedupeCI(names []string) []string {
	seen := map[string]bool{}
	var out []string
	for _, n := range names {
		u := strings.ToUpper(n)
		if !seen[u] {
			seen[u] = true
			out = append(out, u)
		}
	}
	return out
}

func identTree(g *exprGen, depth int) *model.Node {
	r := g.r
	ids := []string{"a", "A", "b", "B", "abc", "Abc", "ABC", "x1", "_y", "Min", "min", "sum", "\"a\"", "\"two words\"", "\"AND\"", "\"\"\"a\"\"\"", "\"a\"\"b\"", "\"\"\"\"", "\"'abc'\"", "\" a\"", "\"a \"", "\"\u3000a\"", "\"a\u2028\"", "é", "É", "iff", "nulls", "ins", "tk", "t\u212a", "TK"}
	fns := []string{"Min", "min", "MAX", "Sum", "a", "abc", "f", "Array", "If"}
	if depth <= 0 || r.Chance(1, 5) {
		switch r.Intn(6) {
		case 0:
			return leafConst(mon.Pick(r, []string{"1", "2.5", "TRUE", "false"}))
		case 1:
			return leafConst(mon.Pick(r, []string{"'a'", "'AND b'", "'abc'", "'NULL'", "'x1 + y'"}))
		}
		return leafVar(mon.Pick(r, ids))
	}
	d := depth - 1
	switch x := r.Intn(12); {
	case x < 5:
		return binNode(mon.Pick(r, binOps), identTree(g, d), identTree(g, d))
	case x < 6:
		return unNode(mon.Pick(r, []string{"neg", "not", "isnull", "isnotnull"}), identTree(g, d))
	case x < 7:
		return &model.Node{Op: "index", Kids: []*model.Node{leafVar(mon.Pick(r, ids)), identTree(g, d)}}
	default:
		n := &model.Node{Op: "call", Lit: mon.Pick(r, fns)}
		for i := r.Intn(4); i > 0; i-- {
			n.Kids = append(n.Kids, identTree(g, d))
		}
		return n
	}
}

// payload: seed \x00 json(tree)
func c18ExprExec(c *mon.Case) {
	parts := strings.SplitN(c.Payload, "\x00", 2)
	seed, _ := strconv.ParseUint(parts[0], 10, 64)
	tree := decNode(parts[1])
	var occ []string
	varsInOrder(tree, &occ)
	want := dedupeCI(occ)
	reused := parsers.NewExpressionParser()
	reused.ParseString("zz_earlier + yy_earlier * Min(1, 2)")
	for i, src := range printings(tree, seed) {
		p := parsers.NewExpressionParser()
		if i%2 == 1 {
			p = reused // every other printing goes to a parser that has parsed other expressions before
		}
		var err error
		if pn := mon.Try(func() { err = p.ParseString(src) }); pn != nil {
			c.FailPanic("ParseString", pn)
			return
		}
		if err != nil {
			c.Count("rejected (C01/C02's business)")
			return
		}
		names := p.VariableNames()
		seen := map[string]bool{}
		for _, n := range names {
			if seen[n] {
				c.Failf("a variable name is reported twice", "source=%q names=%q", src, names)
				return
			}
			seen[n] = true
		}
		got := dedupeCI(names)
		if strings.Join(got, "\x01") != strings.Join(want, "\x01") {
			c.Failf("reported variable names are not the identifiers in variable position in order of first occurrence", "style=%s source=%q\nwant (upper-cased) %q\ngot %q", printStyles[i], src, want, names)
			return
		}
		// the token-list route (blanks kept as tokens, comments dropped, strings decoded) must discover the same names
		tk := ctok.NewExpressionTokenizer()
		setOptions(tk, optSkipComments|optSkipEof|optDecodeStrings)
		p2 := parsers.NewExpressionParser()
		var err2 error
		if pn := mon.Try(func() { err2 = p2.ParseTokens(tk.TokenizeBuffer(strings.Trim(src, " \t\r\n"))) }); pn != nil {
			c.FailPanic("ParseTokens", pn)
			return
		}
		if err2 == nil {
			if got2 := dedupeCI(p2.VariableNames()); strings.Join(got2, "\x01") != strings.Join(want, "\x01") {
				c.Failf("reported variable names are not the identifiers in variable position in order of first occurrence (expression handed over as a token list)", "style=%s source=%q\nwant (upper-cased) %q\ngot %q", printStyles[i], src, want, p2.VariableNames())
				return
			}
		} else {
			c.Count("token list rejected (C02's business)")
		}
		// automatic variables: one entry per name, earlier entries and values kept
		calc := calculator.NewExpressionCalculator()
		pre := []string{"B", "unrelated"}
		for k, n := range pre {
			calc.DefaultVariables().Add(variables.NewVariable(n, variants.VariantFromInteger(100+k)))
		}
		if pn := mon.Try(func() { err = calc.SetExpression(src) }); pn != nil || err != nil {
			c.Failf("calculator rejects what the parser accepts", "source=%q: %v %v", src, pn, err)
			return
		}
		// the public CreateVariables on a collection of the caller's own (with one of the names already there in another
		// letter case), whatever the calculator's default collection holds, with automatic variables on and off
		for _, auto := range []bool{true, false} {
			c2 := calculator.NewExpressionCalculator()
			c2.SetAutoVariables(auto)
			if pn := mon.Try(func() { err = c2.SetExpression(src) }); pn != nil || err != nil {
				c.Failf("calculator rejects what the parser accepts", "source=%q: %v %v", src, pn, err)
				return
			}
			own := variables.NewVariableCollection()
			own.Add(variables.NewVariable("kept_entry", variants.VariantFromInteger(5)))
			if len(want) > 0 && len(want[0]) == len([]rune(want[0])) { // ASCII names only: other letters may have more than one lower-case form
				own.Add(variables.NewVariable(strings.ToLower(want[0]), variants.VariantFromInteger(6)))
			}
			c2.CreateVariables(own)
			var on []string
			for _, v := range own.GetAll() {
				on = append(on, v.Name())
			}
			wantOwn := dedupeCI(append([]string{"kept_entry"}, want...))
			if got := dedupeCI(on); len(on) != len(got) || len(got) != len(wantOwn) || own.Get(0).Name() != "kept_entry" || snap(own.Get(0).Value()).String() != "int(5)" {
				c.Failf("CreateVariables on the caller's own collection does not leave exactly one entry per name, keeping earlier entries", "source=%q automatic variables=%v: the collection holds %q, expression names %q", src, auto, on, want)
				return
			}
		}
		all := calc.DefaultVariables().GetAll()
		var dv []string
		for _, v := range all {
			dv = append(dv, v.Name())
		}
		if len(all) < 2 || all[0].Name() != "B" || all[1].Name() != "unrelated" || snap(all[0].Value()).String() != "int(100)" || snap(all[1].Value()).String() != "int(101)" {
			c.Failf("automatic variables do not keep the entries and values that were already there", "source=%q default variables=%q", src, dv)
			return
		}
		wantSet := dedupeCI(append(append([]string{}, pre...), want...))
		if len(dv) != len(wantSet) || strings.Join(dedupeCI(dv), "\x01") != strings.Join(wantSet, "\x01") {
			c.Failf("automatic variables do not end up with exactly one entry per name", "source=%q\nwant (upper-cased) %q\ndefault variables %q", src, wantSet, dv)
			return
		}
		for _, v := range all[2:] {
			if !v.Value().IsNull() {
				c.Failf("an automatically created variable is not empty", "source=%q variable %q = %s", src, v.Name(), snap(v.Value()))
				return
			}
		}
	}
	c.AddEvals(3, 0)
	if len(want) >= 2 {
		c.NonTrivial()
	}
}

// ---- ordered-list model of the collections

var c18Names = []string{"a", "A", "b"}

const c18OpCount = 15

func c18OpName(op int) string {
	switch {
	case op < 3:
		return "Add(" + c18Names[op] + ")"
	case op < 6:
		return "Locate(" + c18Names[op-3] + ")"
	case op < 9:
		return "RemoveByName(" + c18Names[op-6] + ")"
	case op == 9:
		return "Remove(0)"
	case op == 10:
		return "Remove(last)"
	case op == 11:
		return "Clear()"
	case op == 12:
		return "ClearValues()"
	}
	if op == 13 {
		return "SetValue(first)"
	}
	return "last.Value().SetAsInteger(fresh)"
}

type c18Entry struct {
	name string
	id   int // identity of the entry
	val  int // 0 = null
}

func c18Run(c *mon.Case, ops string, kind string) {
	vc := variables.NewVariableCollection()
	fc := functions.NewFunctionCollection()
	var model []c18Entry
	realVars := map[int]variables.IVariable{}
	realFuncs := map[int]functions.IFunction{}
	nextID := 0
	var handed []*variants.Variant
	var handedVal []int
	var trace []string
	findCI := func(name string) int {
		for i, e := range model {
			if strings.EqualFold(e.name, name) {
				return i
			}
		}
		return -1
	}
	calcFn := func(p []*variants.Variant, o variants.IVariantOperations) (*variants.Variant, error) {
		return variants.EmptyVariant(), nil
	}
	for step := 0; step < len(ops); step++ {
		op := int(ops[step]) % c18OpCount
		trace = append(trace, c18OpName(op))
		skip := false
		pn := mon.Try(func() {
			switch {
			case op < 3:
				nextID++
				model = append(model, c18Entry{c18Names[op], nextID, nextID})
				if kind == "variables" {
					v := variables.NewVariable(c18Names[op], variants.VariantFromInteger(nextID))
					realVars[nextID] = v
					vc.Add(v)
				} else {
					f := functions.NewDelegatedFunction(c18Names[op], calcFn)
					realFuncs[nextID] = f
					fc.Add(f)
				}
			case op < 6:
				if kind != "variables" {
					skip = true
					return
				}
				name := c18Names[op-3]
				got := vc.Locate(name)
				if i := findCI(name); i >= 0 {
					if got != realVars[model[i].id] {
						panic("Locate did not return the first entry with that name")
					}
				} else {
					nextID++
					model = append(model, c18Entry{name, nextID, 0})
					realVars[nextID] = got
					if got == nil || got.Name() != name || !got.Value().IsNull() {
						panic("Locate did not create an empty variable with the given name")
					}
				}
			case op < 9:
				name := c18Names[op-6]
				if kind == "variables" {
					vc.RemoveByName(name)
				} else {
					fc.RemoveByName(name)
				}
				if i := findCI(name); i >= 0 {
					model = append(append([]c18Entry{}, model[:i]...), model[i+1:]...)
				}
			case op == 9 || op == 10:
				if len(model) == 0 {
					skip = true
					return
				}
				i := 0
				if op == 10 {
					i = len(model) - 1
				}
				if kind == "variables" {
					vc.Remove(i)
				} else {
					fc.Remove(i)
				}
				model = append(append([]c18Entry{}, model[:i]...), model[i+1:]...)
			case op == 11:
				if kind == "variables" {
					vc.Clear()
				} else {
					fc.Clear()
				}
				model = nil
			case op == 12:
				if kind != "variables" {
					skip = true
					return
				}
				vc.ClearValues()
				for i := range model {
					model[i].val = 0
				}
			case op == 13:
				if kind != "variables" || len(model) == 0 {
					skip = true
					return
				}
				nextID++
				given := variants.VariantFromInteger(nextID)
				realVars[model[0].id].SetValue(given)
				model[0].val = nextID
				handed = append(handed, given) // the caller keeps the object it handed in
				handedVal = append(handedVal, nextID)
			default:
				// in-place update of the value object of the last variable: every variable owns its value
				if kind != "variables" || len(model) == 0 {
					skip = true
					return
				}
				nextID++
				k := len(model) - 1
				realVars[model[k].id].Value().SetAsInteger(nextID)
				model[k].val = nextID
				for i, h := range handed {
					if h == realVars[model[k].id].Value() {
						handedVal[i] = nextID
					}
				}
			}
		})
		if pn != nil {
			if msg, ok := pn.Val.(string); ok && strings.HasPrefix(msg, "Locate") {
				c.Failf(kind+" collection: "+msg, "after [%s]", strings.Join(trace, "; "))
			} else {
				c.FailPanic(kind+" collection "+c18OpName(op), pn)
			}
			return
		}
		if skip {
			continue
		}
		// observe everything
		bad := ""
		pn = mon.Try(func() {
			var names []string
			n := 0
			if kind == "variables" {
				n = vc.Length()
				all := vc.GetAll()
				if len(all) != n {
					bad = "GetAll and Length disagree"
					return
				}
				for i := 0; i < n; i++ {
					v := vc.Get(i)
					names = append(names, v.Name())
					if v != all[i] {
						bad = "Get and GetAll disagree"
						return
					}
					if i < len(model) {
						if v != realVars[model[i].id] {
							bad = fmt.Sprintf("entry %d is not the variable that was added there", i)
							return
						}
						val := 0
						if !v.Value().IsNull() {
							val = v.Value().AsInteger()
						}
						if val != model[i].val {
							bad = fmt.Sprintf("entry %d holds %d, model says %d", i, val, model[i].val)
							return
						}
					}
				}
			} else {
				n = fc.Length()
				all := fc.GetAll()
				if len(all) != n {
					bad = "GetAll and Length disagree"
					return
				}
				for i := 0; i < n; i++ {
					f := fc.Get(i)
					names = append(names, f.Name())
					if f != all[i] || (i < len(model) && f != realFuncs[model[i].id]) {
						bad = fmt.Sprintf("entry %d is not the function that was added there", i)
						return
					}
				}
			}
			if n != len(model) {
				bad = fmt.Sprintf("length %d, model says %d (names %q)", n, len(model), names)
				return
			}
			for _, q := range []string{"a", "A", "b", "B", "c"} {
				wi := findCI(q)
				var gi int
				var found bool
				if kind == "variables" {
					gi = vc.FindIndexByName(q)
					f := vc.FindByName(q)
					found = f != nil
					if wi >= 0 && f != realVars[model[wi].id] {
						bad = "FindByName(" + q + ") is not the first entry with that name (case-insensitively)"
						return
					}
				} else {
					gi = fc.FindIndexByName(q)
					f := fc.FindByName(q)
					found = f != nil
					if wi >= 0 && f != realFuncs[model[wi].id] {
						bad = "FindByName(" + q + ") is not the first entry with that name (case-insensitively)"
						return
					}
				}
				if gi != wi || found != (wi >= 0) {
					bad = fmt.Sprintf("FindIndexByName(%s)=%d found=%v, model says %d", q, gi, found, wi)
					return
				}
			}
		})
		if pn != nil {
			c.FailPanic(kind+" collection observation", pn)
			return
		}
		for i, h := range handed {
			if bad == "" && (h.Type() != variants.Integer || h.AsInteger() != handedVal[i]) {
				bad = fmt.Sprintf("a value object the caller handed to SetValue earlier (holding %d) was altered through the collection: it now holds %s", handedVal[i], snap(h))
			}
		}
		if bad == "" {
			// the list handed out by GetAll is the caller's to keep and to rearrange: the collection must not follow
			if pn := mon.Try(func() {
				if kind == "variables" {
					all := vc.GetAll()
					for i, j := 0, len(all)-1; i < j; i, j = i+1, j-1 {
						all[i], all[j] = all[j], all[i]
					}
					if len(all) > 0 {
						all[0] = nil
					}
					for i := range model {
						if vc.Get(i) != realVars[model[i].id] {
							bad = fmt.Sprintf("after the caller rearranged the list returned by GetAll, entry %d of the collection is another variable", i)
						}
					}
				} else {
					all := fc.GetAll()
					for i, j := 0, len(all)-1; i < j; i, j = i+1, j-1 {
						all[i], all[j] = all[j], all[i]
					}
					if len(all) > 0 {
						all[0] = nil
					}
					for i := range model {
						if fc.Get(i) != realFuncs[model[i].id] {
							bad = fmt.Sprintf("after the caller rearranged the list returned by GetAll, entry %d of the collection is another function", i)
						}
					}
				}
			}); pn != nil {
				c.FailPanic(kind+" collection after GetAll", pn)
				return
			}
		}
		if bad != "" {
			c.Failf(kind+" collection diverges from an ordered list", "after [%s]: %s", strings.Join(trace, "; "), bad)
			return
		}
	}
	c.NonTrivial()
}

func buildC18(cfg *mon.Config) []*mon.Sub {
	exprs := &mon.Sub{
		Name:  "expression-variable-discovery",
		Rule:  "seeded expression trees whose leaves reuse a small identifier pool in different letter case, as function name and as variable, as \"quoted identifiers\" (incl. a keyword and a name with a blank), with keywords and identifiers inside string constants; each printed four ways; oracle: VariableNames() = identifiers in variable position in order of first occurrence (compared case-insensitively merged), no name twice; after SetExpression on a calculator pre-loaded with two valued variables the default collection keeps those two first with their values and holds exactly one (empty) entry per discovered name compared case-insensitively; non-trivial = at least two distinct variables",
		Floor: 500,
		Gen: func(emit func(string)) {
			r := cfg.Rng("c18-expr")
			g := &exprGen{r: r}
			for i := 0; i < cfg.N(4000, 150000); i++ {
				emit(strconv.FormatUint(r.Next()%1000000, 10) + "\x00" + encNode(identTree(g, 1+r.Intn(4))))
			}
			// many distinct names in one expression, with twins that differ only in letter case, all new
			for n := 2; n <= 45; n++ {
				t := leafVar("total")
				for k := 1; k <= n; k++ {
					t = binNode("+", t, leafVar(fmt.Sprintf("v%d", k)))
				}
				t = binNode("-", binNode("*", t, leafVar("TOTAL")), leafVar(fmt.Sprintf("V%d", n)))
				emit(strconv.Itoa(n) + "\x00" + encNode(t))
			}
		},
		Exec: c18ExprExec,
		Sample: func(p string) any {
			parts := strings.SplitN(p, "\x00", 2)
			seed, _ := strconv.ParseUint(parts[0], 10, 64)
			return printings(decNode(parts[1]), seed)[2]
		},
	}
	resolve := &mon.Sub{
		Name:          "resolution-and-missing-names",
		Rule:          "variables and functions resolve case-insensitively with the first one added winning; a missing variable or function is an error whose message names it; enumerated over name spellings x collection orders (all distinct)",
		Exhaustive:    true,
		DistinctByGen: true,
		Floor:         10,
		Gen: func(emit func(string)) {
			for _, n1 := range []string{"abc", "ABC", "Abc", "é", "x_1"} {
				for _, n2 := range []string{"abc", "ABC", "aBC", "É", "X_1"} {
					for _, use := range []string{"abc", "ABC", "aBc", "é", "É", "x_1", "X_1", "\"abc\"", "\"ABC\""} {
						emit(n1 + "\x00" + n2 + "\x00" + use)
					}
				}
			}
		},
		Exec: func(c *mon.Case) {
			c.NonTrivial()
			p := strings.Split(c.Payload, "\x00")
			n1, n2, use := p[0], p[1], p[2]
			name := identName(use)
			vc := variables.NewVariableCollection()
			vc.Add(variables.NewVariable(n1, variants.VariantFromInteger(1)))
			vc.Add(variables.NewVariable(n2, variants.VariantFromInteger(2)))
			calc := calculator.NewExpressionCalculator()
			var res *variants.Variant
			var err error
			if pn := mon.Try(func() {
				if err = calc.SetExpression(use + " + 0"); err == nil {
					res, err = calc.EvaluateUsingVariables(vc)
				}
			}); pn != nil {
				c.FailPanic("evaluate", pn)
				return
			}
			want := 0
			if strings.EqualFold(n1, name) || (strings.ToUpper(n1) == strings.ToUpper(name)) {
				want = 1
			} else if strings.ToUpper(n2) == strings.ToUpper(name) {
				want = 2
			}
			if want == 0 {
				if err == nil || !strings.Contains(err.Error(), name) {
					c.Failf("a missing variable is not reported as an error naming it", "variables [%s %s], expression %q -> %v, %v", n1, n2, use, snap(res), err)
				}
			} else if err != nil || snap(res).String() != fmt.Sprintf("int(%d)", want) {
				c.Failf("a variable does not resolve case-insensitively to the first one added", "variables [%s=1 %s=2], expression %q -> %v, %v; want %d", n1, n2, use, snap(res), err, want)
			}
			// an explicitly passed empty function collection is an empty collection
			calc3 := calculator.NewExpressionCalculator()
			if pn := mon.Try(func() {
				if err = calc3.SetExpression("Max(1, 2) + Sum(1, 2)"); err == nil {
					res, err = calc3.EvaluateUsingVariablesAndFunctions(nil, functions.NewFunctionCollection())
				}
			}); pn != nil || err == nil || !strings.Contains(err.Error(), "Max") {
				c.Failf("a missing function is not reported as an error naming it", "Max(1, 2) + Sum(1, 2) evaluated with an explicitly passed empty function collection -> %v, %v", snap(res), err)
				return
			}
			// functions
			fc := functions.NewFunctionCollection()
			mk := func(n string, v int) functions.IFunction {
				return functions.NewDelegatedFunction(n, func(p []*variants.Variant, o variants.IVariantOperations) (*variants.Variant, error) {
					return variants.VariantFromInteger(v), nil
				})
			}
			fc.Add(mk(n1, 1))
			fc.Add(mk(n2, 2))
			if strings.HasPrefix(use, "\"") {
				return
			}
			calc2 := calculator.NewExpressionCalculator()
			if pn := mon.Try(func() {
				if err = calc2.SetExpression(use + "()"); err == nil {
					res, err = calc2.EvaluateUsingVariablesAndFunctions(nil, fc)
				}
			}); pn != nil {
				c.FailPanic("evaluate", pn)
				return
			}
			if want == 0 {
				if err == nil || !strings.Contains(err.Error(), name) {
					c.Failf("a missing function is not reported as an error naming it", "functions [%s %s], expression %q -> %v, %v", n1, n2, use+"()", snap(res), err)
				}
			} else if err != nil || snap(res).String() != fmt.Sprintf("int(%d)", want) {
				c.Failf("a function does not resolve case-insensitively to the first one added", "functions [%s %s], expression %q -> %v, %v; want %d", n1, n2, use+"()", snap(res), err, want)
			}
		},
	}
	depth := cfg.N(5, 6)
	tmpl := &mon.Sub{
		Name:  "template-variable-discovery",
		Rule:  "seeded template trees (C10 generator: names in random letter case, sections in every spelling incl. the section words if/unless, comments that mention names, text that mentions names); oracle: the parser's VariableNames() are the variable and section names in order of first occurrence merged case-insensitively - never if/unless, comment or text words; after SetTemplate on a template pre-loaded with two valued default variables the map keeps them and holds exactly one entry per discovered name compared case-insensitively; non-trivial = at least two names",
		Floor: 500,
		Gen: func(emit func(string)) {
			r := cfg.Rng("c18-tmpl")
			g := &tmplGen{r: r}
			for i := 0; i < cfg.N(4000, 150000); i++ {
				nodes := sanitizeTemplate(g.nodes(1+r.Intn(3), 2+r.Intn(7)))
				if len(nodes) == 0 || commentHasQuote(nodes) {
					continue
				}
				emit(encTmpl(nodes, nil))
			}
		},
		Exec: func(c *mon.Case) {
			nodes, _ := decTmpl(c.Payload)
			src := model.PrintTemplate(nodes)
			want := model.TemplateNames(nodes)
			p := mparsers.NewMustacheParser()
			var err error
			if pn := mon.Try(func() { err = p.ParseString(src) }); pn != nil || err != nil {
				c.Count("rejected or panicked (C10's business)")
				return
			}
			var got []string
			seen := map[string]bool{}
			for _, n := range p.VariableNames() {
				l := strings.ToLower(n)
				if seen[l] {
					c.Failf("a template variable name is reported twice", "template=%q names=%q", src, p.VariableNames())
					return
				}
				seen[l] = true
				got = append(got, l)
			}
			if strings.Join(got, "\x01") != strings.Join(want, "\x01") {
				c.Failf("reported template variable names are not the variable and section names in order of first occurrence", "template=%q\nwant %q\ngot  %q", src, want, p.VariableNames())
				return
			}
			t := mustache.NewMustacheTemplate()
			pre := map[string]string{"KEEP": "1", "ITEM": "2"}
			if len(want) > 0 && want[0] != "keep" && want[0] != "item" {
				pre[strings.ToUpper(want[0])] = "" // an entry that is already there, empty, in another letter case
			}
			t.SetDefaultVariables(pre)
			if pn := mon.Try(func() { err = t.SetTemplate(src) }); pn != nil || err != nil {
				c.Failf("template rejects what its parser accepts", "template=%q: %v %v", src, pn, err)
				return
			}
			dv := t.DefaultVariables()
			wantKeys := map[string]bool{"keep": true, "item": true}
			for _, n := range want {
				wantKeys[n] = true
			}
			gotKeys := map[string]int{}
			for k := range dv {
				gotKeys[strings.ToLower(k)]++
			}
			if dv["KEEP"] != "1" || dv["ITEM"] != "2" || len(dv) != len(wantKeys) {
				c.Failf("automatic template variables do not end up with exactly one entry per name, keeping earlier entries", "template=%q default variables=%q want keys %v", src, dv, wantKeys)
				return
			}
			for k := range wantKeys {
				if gotKeys[k] != 1 {
					c.Failf("automatic template variables do not end up with exactly one entry per name, keeping earlier entries", "template=%q default variables=%q want keys %v", src, dv, wantKeys)
					return
				}
			}
			// the public CreateVariables on a map of the caller's own, with automatic variables on and off
			for _, auto := range []bool{true, false} {
				t2 := mustache.NewMustacheTemplate()
				t2.SetAutoVariables(auto)
				t2.SetDefaultVariables(map[string]string{"elsewhere": "x"})
				if pn := mon.Try(func() { err = t2.SetTemplate(src) }); pn != nil || err != nil {
					c.Failf("template rejects what its parser accepts", "template=%q: %v %v", src, pn, err)
					return
				}
				own := map[string]string{"KEEP": "1"}
				if len(want) > 0 && want[0] != "keep" {
					own[strings.ToUpper(want[0])] = "v"
				}
				t2.CreateVariables(&own)
				keys := map[string]int{}
				for k := range own {
					keys[strings.ToLower(k)]++
				}
				okOwn := own["KEEP"] == "1" && keys["keep"] == 1
				n := 1
				for _, w := range want {
					if w != "keep" {
						n++
					}
					if keys[w] != 1 {
						okOwn = false
					}
				}
				if !okOwn || len(own) != n {
					c.Failf("CreateVariables on the caller's own map does not leave exactly one entry per template name, keeping earlier entries", "template=%q automatic variables=%v map after CreateVariables=%q, template names %q", src, auto, own, want)
					return
				}
			}
			if len(want) >= 2 {
				c.NonTrivial()
			}
		},
	}
	punct := &mon.Sub{
		Name: "names-that-differ-outside-letters", Rule: "every ordered pair of distinct ASCII characters that are not letters (controls from U+0001, blanks, digits, punctuation; 69 characters) placed in the middle of otherwise equal names v?w: the two are different names - added to a variable collection (and, for printable characters, used as quoted identifiers in one expression with automatic variables) they give two entries, each found by its own name with its own value, index and removal; letter case is the only thing name comparison may ignore",
		Exhaustive: true, DistinctByGen: true, Floor: 1000,
		Gen: func(emit func(string)) {
			var chars []rune
			for ch := rune(1); ch < 0x80; ch++ {
				if (ch >= 'a' && ch <= 'z') || (ch >= 'A' && ch <= 'Z') || ch == '"' {
					continue
				}
				chars = append(chars, ch)
			}
			for _, a := range chars {
				for _, b := range chars {
					if a != b {
						emit(string(a) + string(b))
					}
				}
			}
		},
		Exec: func(c *mon.Case) {
			rs := []rune(c.Payload)
			n1, n2 := "v"+string(rs[0])+"w", "V"+string(rs[1])+"w"
			vc := variables.NewVariableCollection()
			v1, v2 := variables.NewVariable(n1, variants.VariantFromInteger(1)), variables.NewVariable(n2, variants.VariantFromInteger(2))
			vc.Add(v1)
			vc.Add(v2)
			probe1, probe2 := strings.ToUpper(n1), strings.ToLower(n2)
			if vc.Length() != 2 || vc.FindByName(probe1) != variables.IVariable(v1) || vc.FindByName(probe2) != variables.IVariable(v2) || vc.FindIndexByName(probe2) != 1 || vc.FindIndexByName(probe1) != 0 || vc.Locate(probe2) != variables.IVariable(v2) || vc.Length() != 2 {
				c.Failf("variable names that differ in a character that is not a letter are taken for one name", "collection [%q=1, %q=2]: FindIndexByName(%q)=%d FindIndexByName(%q)=%d length=%d", n1, n2, probe1, vc.FindIndexByName(probe1), probe2, vc.FindIndexByName(probe2), vc.Length())
				return
			}
			vc.RemoveByName(probe2)
			if vc.Length() != 1 || vc.Get(0) != variables.IVariable(v1) {
				c.Failf("variable names that differ in a character that is not a letter are taken for one name", "collection [%q=1, %q=2]: RemoveByName(%q) leaves %d entries, first %q", n1, n2, probe2, vc.Length(), vc.Get(0).Name())
				return
			}
			if rs[0] >= ' ' && rs[1] >= ' ' && rs[0] != 0x7f && rs[1] != 0x7f {
				calc := calculator.NewExpressionCalculator()
				src := "\"" + n1 + "\" * 10 + \"" + n2 + "\""
				var err error
				var res *variants.Variant
				if pn := mon.Try(func() {
					if err = calc.SetExpression(src); err == nil {
						for _, v := range calc.DefaultVariables().GetAll() {
							if v.Name() == n1 {
								v.SetValue(variants.VariantFromInteger(1))
							} else if v.Name() == n2 {
								v.SetValue(variants.VariantFromInteger(2))
							}
						}
						res, err = calc.Evaluate()
					}
				}); pn != nil {
					c.FailPanic("expression with two quoted identifiers", pn)
					return
				}
				if err != nil || res == nil || calc.DefaultVariables().Length() != 2 || res.Type() != variants.Integer || res.AsInteger() != 12 {
					c.Failf("variable names that differ in a character that is not a letter are taken for one name", "expression %q with automatic variables: %d default variables, result %v, error %v; want 2 variables and 12", src, calc.DefaultVariables().Length(), snap(res), err)
					return
				}
			}
			c.NonTrivial()
		},
	}
	indep := &mon.Sub{
		Name:          "default-collections-independent",
		Rule:          "two default function collections (and two calculators) are built; removing a function from one, adding a custom function to one, clearing one must not show in the other or in a collection built afterwards (37 functions, all found by name); the same for two calculators' default variable collections; enumerated over the 37 names",
		Exhaustive:    true,
		DistinctByGen: true,
		Floor:         10,
		Gen: func(emit func(string)) {
			for _, n := range c08Names {
				emit(n)
			}
		},
		Exec: func(c *mon.Case) {
			c.NonTrivial()
			name := c.Payload
			a, b := functions.NewDefaultFunctionCollection(), functions.NewDefaultFunctionCollection()
			ca, cb := calculator.NewExpressionCalculator(), calculator.NewExpressionCalculator()
			a.RemoveByName(name)
			ca.DefaultFunctions().RemoveByName(name)
			custom := functions.NewDelegatedFunction("custom_"+name, func(p []*variants.Variant, o variants.IVariantOperations) (*variants.Variant, error) {
				return variants.VariantFromInteger(1), nil
			})
			a.Add(custom)
			ca.DefaultFunctions().Add(custom)
			ca.DefaultVariables().Add(variables.NewVariable("leak", variants.VariantFromInteger(1)))
			fresh := functions.NewDefaultFunctionCollection()
			for label, fc := range map[string]functions.IFunctionCollection{"second collection": b, "collection built afterwards": fresh, "second calculator": cb.DefaultFunctions(), "calculator built afterwards": calculator.NewExpressionCalculator().DefaultFunctions()} {
				if fc.Length() != 37 || fc.FindByName(name) == nil || fc.FindByName("custom_"+name) != nil {
					c.Failf("default function collections share state", "after RemoveByName(%q) and Add(custom) on one default collection, the %s has %d functions, %q found=%v, custom found=%v", name, label, fc.Length(), name, fc.FindByName(name) != nil, fc.FindByName("custom_"+name) != nil)
					return
				}
			}
			if cb.DefaultVariables().Length() != 0 {
				c.Failf("default variable collections share state", "a variable added to one calculator shows in another")
				return
			}
			// the default collections keep their identity: a handle fetched once stays THE collection across Clear and SetExpression
			hv, hf := ca.DefaultVariables(), ca.DefaultFunctions()
			ca.Clear()
			if err := ca.SetExpression("zq_" + strings.ToLower(name) + " + 1"); err == nil {
				if ca.DefaultVariables() != hv || ca.DefaultFunctions() != hf || hv.FindByName("ZQ_"+name) == nil {
					c.Failf("a handle on the default variables fetched before Clear() is no longer the calculator's collection", "after Clear() and SetExpression(%q): same collection object=%v, same function collection=%v, the kept handle lists %d variables", "zq_"+strings.ToLower(name)+" + 1", ca.DefaultVariables() == hv, ca.DefaultFunctions() == hf, hv.Length())
					return
				}
				hv.FindByName("zq_" + name).SetValue(variants.VariantFromInteger(106))
				if r, err := ca.Evaluate(); err != nil || r == nil || snap(r).String() != "int(107)" {
					c.Failf("a handle on the default variables fetched before Clear() is no longer the calculator's collection", "value set through the kept handle, then Evaluate() -> %v %v, want 107", snap(r), err)
					return
				}
			}
			a.Clear()
			if b.Length() != 37 {
				c.Failf("default function collections share state", "Clear on one default collection emptied another")
			}
		},
	}
	var subs = []*mon.Sub{exprs, resolve, tmpl, punct, indep}
	for _, kind := range []string{"variables", "functions"} {
		kind := kind
		subs = append(subs, &mon.Sub{
			Name:          "collection-vs-list-model-" + kind,
			Rule:          fmt.Sprintf("every sequence of %d operations over {Add(a|A|b), Locate(a|A|b), RemoveByName(a|A|b), Remove(0), Remove(last), Clear, ClearValues, SetValue(first), in-place update of the last value} on a %s collection; after every operation every value object the caller ever handed to SetValue must still hold what the caller (or an in-place update) put there - clearing values replaces them, it does not empty objects the caller holds - and Length, Get(i), GetAll, entry identity and value, FindIndexByName/FindByName for a, A, b, B, c are compared with an ordered-list model (first entry wins case-insensitively); plus seeded sequences up to 60 operations", depth, kind),
			Exhaustive:    true,
			DistinctByGen: true,
			Floor:         1000,
			Gen: func(emit func(string)) {
				buf := make([]byte, depth)
				var rec func(d int)
				rec = func(d int) {
					if d == depth {
						emit(string(buf))
						return
					}
					for k := 0; k < c18OpCount; k++ {
						if kind == "functions" && ((k >= 3 && k < 6) || k >= 12) {
							continue
						}
						buf[d] = byte(k)
						rec(d + 1)
					}
				}
				rec(0)
				r := cfg.Rng("c18-coll-" + kind)
				for i := 0; i < cfg.N(2000, 200000); i++ {
					b := make([]byte, 6+r.Intn(55))
					for j := range b {
						b[j] = byte(r.Intn(c18OpCount))
					}
					emit(string(b))
				}
			},
			Exec: func(c *mon.Case) { c18Run(c, c.Payload, kind) },
			Sample: func(p string) any {
				var d []string
				for i := 0; i < len(p); i++ {
					d = append(d, c18OpName(int(p[i])%c18OpCount))
				}
				return strings.Join(d, "; ")
			},
		})
	}
	return subs
}
