package checks

import (
	"encoding/json"
	"fmt"
	"strconv"
	"strings"

	"github.com/pip-services3-gox/pip-services3-expressions-gox/mustache"
	mtok "github.com/pip-services3-gox/pip-services3-expressions-gox/mustache/tokenizers"

	"verifharness/model"
	"verifharness/mon"
)

// C10 — mustache rendering equals the reference semantics; malformed input is rejected.

func init() { mon.Register("C10", buildC10) }

var tmplNames = []string{"a", "B", "name", "x1", "_u", "é", "Ünï", "шляпа", "v-1", "Item", "straße", "username", "item-10"}
var tmplTextPool = []string{"\u0080", "\u007f\u0080\u0081\u00a0", "Hello", " ", ", ", "\n", "\t", "x", "}", "{", "} }", "'", "\"quoted\"", "it's", "/", "\\", "#", "^", "!", "é", "шляпа", "€", "😀", "𝄞", "￿", "<b>", "&amp;", "1 < 2", "if", "unless", "a.b", "  ", "\r\n", "%", "{ {", "}}"}
var tmplValuePool = []string{"", "v", "Alice", "1", "0", " ", "a\"b", "back\\slash", "sl/ash", "line\nbreak", "tab\t", "\r", "\b\f", "é", "шляпа", "😀", "{{a}}", "}}", "<x>", "true"}
var tmplPads = []string{"", "", "", "", " ", "  ", "\t", "\n", " ", "\v", "\f", "\x1f", "\r\n", " \x01", "\x00"}

type tmplGen struct{ r *mon.Rng }

func (g *tmplGen) text() string {
	var b strings.Builder
	for i := 1 + g.r.Intn(4); i > 0; i-- {
		b.WriteString(mon.Pick(g.r, tmplTextPool))
	}
	return b.String()
}

func caseVariant(r *mon.Rng, s string) string {
	if strings.Contains(strings.ToLower(s), "ß") && r.Bool() {
		// capital sharp s: lower-cases to ß, but has another UTF-8 length
		return strings.ReplaceAll(strings.ToUpper(strings.ToLower(s)), "ß", "ẞ")
	}
	switch r.Intn(4) {
	case 0:
		return strings.ToUpper(s)
	case 1:
		return strings.ToLower(s)
	}
	return s
}

func (g *tmplGen) pads() [3]string {
	return [3]string{mon.Pick(g.r, tmplPads), mon.Pick(g.r, tmplPads), mon.Pick(g.r, tmplPads)}
}

func (g *tmplGen) nodes(depth, budget int) []*model.TNode {
	r := g.r
	var out []*model.TNode
	n := r.Intn(budget + 1)
	lastText := false
	for i := 0; i < n; i++ {
		switch x := r.Intn(10); {
		case x < 3 && !lastText:
			out = append(out, &model.TNode{Kind: "text", Text: g.text()})
			lastText = true
			continue
		case x < 6:
			out = append(out, &model.TNode{Kind: "var", Text: caseVariant(r, mon.Pick(r, tmplNames)), Triple: r.Chance(1, 3), Pad: g.pads()})
		case x < 7:
			body := " " + mon.Pick(r, []string{"note", "a b c", "TODO: fix", "x > y", "#hash / slash", "шляпа", "1 2 3", "if unless", "{ single } brace", "new\nline", "it's", "say \"hi\""}) + mon.Pick(r, []string{"", " ", "\n"})
			out = append(out, &model.TNode{Kind: "comment", Text: body, Triple: r.Chance(1, 4), Pad: g.pads()})
		default:
			if depth <= 0 {
				out = append(out, &model.TNode{Kind: "var", Text: mon.Pick(r, tmplNames), Pad: g.pads()})
				break
			}
			open := mon.Pick(r, []string{"#", "#if", "^", "#unless"})
			s := &model.TNode{Kind: "section", Text: caseVariant(r, mon.Pick(r, tmplNames)), Open: open, Inv: open == "^" || open == "#unless",
				Close: mon.Pick(r, []string{"name", "name", "if", "unless"}), Triple: r.Chance(1, 5), Pad: g.pads(), Pad2: g.pads()}
			s.Body = g.nodes(depth-1, budget/2+1)
			out = append(out, s)
		}
		lastText = false
	}
	return out
}

// sanitize enforces the positional don't-care rules on text nodes.
func sanitizeTemplate(nodes []*model.TNode) []*model.TNode {
	segsFix := func(ns []*model.TNode) {}
	_ = segsFix
	var fix func(ns []*model.TNode, top bool) []*model.TNode
	fix = func(ns []*model.TNode, top bool) []*model.TNode {
		var out []*model.TNode
		for _, n := range ns {
			if n.Kind == "text" {
				t := n.Text
				for strings.Contains(t, "{{") {
					t = strings.ReplaceAll(t, "{{", "{ {")
				}
				if strings.HasPrefix(t, "}") {
					t = "." + t
				}
				if strings.HasSuffix(t, "{") {
					t += "."
				}
				n.Text = t
			}
			if n.Kind == "section" {
				n.Body = fix(n.Body, false)
			}
			out = append(out, n)
		}
		return out
	}
	nodes = fix(nodes, true)
	// the whole template is trimmed by the parser: no blank at either end
	if len(nodes) > 0 && nodes[0].Kind == "text" {
		nodes[0].Text = strings.TrimLeft(nodes[0].Text, " \t\r\n")
		if nodes[0].Text == "" {
			nodes = nodes[1:]
		}
	}
	if k := len(nodes) - 1; k >= 0 && nodes[k].Kind == "text" {
		nodes[k].Text = strings.TrimRight(nodes[k].Text, " \t\r\n")
		if nodes[k].Text == "" {
			nodes = nodes[:k]
		}
	}
	return nodes
}

func (g *tmplGen) vars(nodes []*model.TNode) map[string]string {
	m := map[string]string{}
	for _, n := range model.TemplateNames(nodes) {
		switch g.r.Intn(4) {
		case 0: // absent
		case 1:
			m[caseVariant(g.r, n)] = ""
		default:
			m[caseVariant(g.r, n)] = mon.Pick(g.r, tmplValuePool)
		}
	}
	if g.r.Chance(1, 4) {
		m["unused"] = "zzz"
	}
	return m
}

func encTmpl(nodes []*model.TNode, vars map[string]string) string {
	a, _ := json.Marshal(nodes)
	b, _ := json.Marshal(vars)
	return string(a) + "\x00" + string(b)
}

func decTmpl(s string) ([]*model.TNode, map[string]string) {
	i := strings.IndexByte(s, 0)
	var nodes []*model.TNode
	vars := map[string]string{}
	json.Unmarshal([]byte(s[:i]), &nodes)
	json.Unmarshal([]byte(s[i+1:]), &vars)
	return nodes, vars
}

func hasKind(nodes []*model.TNode, kind string) bool {
	for _, n := range nodes {
		if n.Kind == kind || hasKind(n.Body, kind) {
			return true
		}
	}
	return false
}

func commentHasQuote(nodes []*model.TNode) bool {
	for _, n := range nodes {
		if (n.Kind == "comment" && strings.ContainsAny(n.Text, "'\"")) || commentHasQuote(n.Body) {
			return true
		}
	}
	return false
}

func renderReal(src string, vars map[string]string) (out string, setErr, evalErr error, p *mon.Panic) {
	p = mon.Try(func() {
		t := mustache.NewMustacheTemplate()
		if setErr = t.SetTemplate(src); setErr != nil {
			return
		}
		out, evalErr = t.EvaluateWithVariables(vars)
	})
	return
}

// payload: "tree" \x00 json(nodes) \x00 json(vars)   |  "mut" \x00 kind \x00 site \x00 json(nodes)   |  "lex" \x00 lexemes (blank separated)
func c10Exec(c *mon.Case) {
	i := strings.IndexByte(c.Payload, 0)
	mode, rest := c.Payload[:i], c.Payload[i+1:]
	switch mode {
	case "tree":
		nodes, vars := decTmpl(rest)
		src := model.PrintTemplate(nodes)
		want := model.RenderTemplate(nodes, vars)
		got, setErr, evalErr, p := renderReal(src, vars)
		if p != nil {
			c.FailPanic("template", p)
			return
		}
		cls := ""
		if hasKind(nodes, "comment") {
			cls = " (template with a comment)"
		}
		if commentHasQuote(nodes) {
			cls = " (comment body contains a quote character)"
		}
		if setErr != nil {
			c.Failf("a well-formed template is rejected"+cls, "template=%q: %v", src, setErr)
			return
		}
		if evalErr != nil {
			c.Failf("rendering a well-formed template fails"+cls, "template=%q: %v", src, evalErr)
			return
		}
		if got != want {
			c.Failf("rendering differs from the reference semantics"+cls, "template=%q variables=%q\nwant %q\ngot  %q", src, vars, want, got)
			return
		}
		// the same on an instance that has already parsed another template
		var got2 string
		var e1, e2 error
		if p := mon.Try(func() {
			t := mustache.NewMustacheTemplate()
			t.SetTemplate("warm {{zz}} up {{#q}}x{{/q}}")
			if e1 = t.SetTemplate(src); e1 == nil {
				got2, e2 = t.EvaluateWithVariables(vars)
			}
		}); p != nil || e1 != nil || e2 != nil || got2 != want {
			c.Failf("rendering on a reused template instance differs from the reference semantics"+cls, "template=%q variables=%q\nwant %q\ngot  %q (%v %v %v)", src, vars, want, got2, p, e1, e2)
			return
		}
		// an explicitly passed empty map is an empty map, whatever the instance's default variables hold
		var got3 string
		var e3 error
		if p := mon.Try(func() {
			t := mustache.NewMustacheTemplate()
			dv := map[string]string{}
			for _, n := range model.TemplateNames(nodes) {
				dv[n] = "DEFAULT"
			}
			t.SetDefaultVariables(dv)
			if e3 = t.SetTemplate(src); e3 == nil {
				got3, e3 = t.EvaluateWithVariables(map[string]string{})
			}
		}); p != nil || e3 != nil || got3 != model.RenderTemplate(nodes, map[string]string{}) {
			c.Failf("rendering with an explicitly passed empty map differs from the reference semantics"+cls, "template=%q (default variables all set to DEFAULT)\nwant %q\ngot  %q (%v %v)", src, model.RenderTemplate(nodes, map[string]string{}), got3, p, e3)
			return
		}
		// the token-list entry point: the text, with blanks around it, cut by a stand-alone mustache tokenizer (configured
		// as the parser configures its own) and handed over with SetOriginalTokens; nothing is trimmed on this route, so
		// the blanks are literal text
		lead := []string{"", " ", "\n ", "\t"}[len(src)%4]
		trail := []string{"", " ", " \r\n", ""}[len(want)%4]
		var got4 string
		var e4, e5 error
		var composed string
		if p := mon.Try(func() {
			tk := mtok.NewMustacheTokenizer()
			setOptions(tk, optSkipWhitespaces|optSkipComments|optSkipEof|optDecodeStrings)
			toks := tk.TokenizeBuffer(lead + src + trail)
			t := mustache.NewMustacheTemplate()
			if e4 = t.SetOriginalTokens(toks); e4 == nil {
				got4, e5 = t.EvaluateWithVariables(vars)
				composed = t.Template()
			}
		}); p != nil || e4 != nil || e5 != nil || got4 != lead+want+trail {
			c.Failf("rendering a template handed over as a token list differs from the reference semantics"+cls, "text=%q variables=%q\nwant %q\ngot  %q (%v %v %v)", lead+src+trail, vars, lead+want+trail, got4, p, e4, e5)
			return
		}
		_ = composed
		if hasKind(nodes, "section") {
			c.NonTrivial()
		}
		for _, k := range []string{"text", "var", "comment", "section"} {
			if hasKind(nodes, k) {
				c.Mark("node-kinds-rendered", k)
			}
		}
	case "mut":
		parts := strings.SplitN(rest, "\x00", 3)
		kind := parts[0]
		site, _ := strconv.Atoi(parts[1])
		var nodes []*model.TNode
		json.Unmarshal([]byte(parts[2]), &nodes)
		segs := model.PrintSegments(nodes)
		src, ok := mutateTemplate(segs, kind, site)
		if !ok {
			c.Count("mutation site not applicable")
			return
		}
		_, setErr, _, p := renderReal(src, map[string]string{})
		if p != nil {
			c.FailPanic("template ("+kind+")", p)
			return
		}
		if setErr == nil {
			c.Failf("a malformed template is accepted ("+kind+")", "template=%q (from %q)", src, model.JoinSegments(segs))
			return
		}
		c.NonTrivial()
		c.Mark("malformed-classes-rejected", kind)
		c.Mark("error-codes", errCode(setErr))
	case "lex":
		lex := strings.Split(rest, " ")
		verdict, why, tree := model.ClassifyLexemes(lex)
		src := model.JoinLexemes(lex)
		vars := map[string]string{"a": "1", "B": "", "t": "T"}
		got, setErr, evalErr, p := renderReal(src, vars)
		if p != nil {
			c.FailPanic("template", p)
			return
		}
		switch verdict {
		case model.TUnspecified:
			c.Unspecified(why)
		case model.TMalformed:
			if setErr == nil {
				c.Failf("a malformed template is accepted ("+why+")", "template=%q lexemes=%q", src, lex)
				return
			}
			c.NonTrivial()
		case model.TWellFormed:
			cls := ""
			if hasKind(tree, "comment") {
				cls = " (template with a comment)"
			}
			if setErr != nil || evalErr != nil {
				c.Failf("a well-formed template is rejected"+cls, "template=%q lexemes=%q: %v %v", src, lex, setErr, evalErr)
				return
			}
			if want := model.RenderTemplate(tree, vars); got != want {
				c.Failf("rendering differs from the reference semantics"+cls, "template=%q variables=%q\nwant %q\ngot  %q", src, vars, want, got)
				return
			}
			c.NonTrivial()
		}
	}
}

var tmplMutations = []string{"unclosed tag", "unclosed section", "unopened section", "mismatched section", "mismatched brace counts"}

// mutateTemplate makes a well-formed template malformed by construction.
func mutateTemplate(segs []model.Seg, kind string, site int) (string, bool) {
	pick := func(ok func(i int) bool) int {
		var cands []int
		for i := range segs {
			if ok(i) {
				cands = append(cands, i)
			}
		}
		if len(cands) == 0 {
			return -1
		}
		return cands[site%len(cands)]
	}
	s := append([]model.Seg{}, segs...)
	switch kind {
	case "unclosed tag":
		i := pick(func(i int) bool {
			if s[i].Kind == "text" || s[i].Kind == "comment" {
				return false
			}
			// nothing after the tag may supply the missing braces
			for _, t := range s[i+1:] {
				if t.Kind == "text" && strings.Contains(t.Text, "}}") {
					return false
				}
				if t.Kind == "comment" {
					return false
				}
			}
			return true
		})
		if i < 0 {
			return "", false
		}
		s[i].Text = strings.TrimRight(s[i].Text, "}")
	case "unclosed section":
		i := pick(func(i int) bool { return s[i].Kind == "end" })
		if i < 0 {
			return "", false
		}
		s = append(s[:i], s[i+1:]...)
	case "unopened section":
		i := pick(func(i int) bool { return s[i].Depth == 0 && s[i].Kind != "end" })
		at := 0
		if i >= 0 {
			at = i
		}
		if site%2 == 1 {
			at = len(s)
		}
		s = append(s[:at], append([]model.Seg{{Kind: "end", Text: "{{/zz}}"}}, s[at:]...)...)
	case "mismatched section":
		i := pick(func(i int) bool { return s[i].Kind == "end" && s[i].Node.Close == "name" })
		if i < 0 {
			return "", false
		}
		name := []rune(s[i].Node.Text)
		other := "zz"
		switch site % 8 { // besides an unrelated name: a proper prefix of the section's name, the name extended, the name with another last letter, a section word in another letter case, the three-part spelling with another name
		case 4:
			other = "IF"
		case 5:
			other = "Unless"
		case 6:
			other = "if zz"
		case 7:
			other = "unless zz"
		case 1:
			if len(name) > 1 {
				other = string(name[:len(name)-1])
			}
		case 2:
			other = string(name) + "x"
		case 3:
			if len(name) > 1 {
				other = string(name[:len(name)-1]) + "q"
			}
		}
		s[i].Text = strings.Replace(s[i].Text, s[i].Node.Text, other, 1)
	case "mismatched brace counts":
		i := pick(func(i int) bool { return s[i].Kind != "text" })
		if i < 0 {
			return "", false
		}
		t := s[i].Text
		triple := strings.HasPrefix(t, "{{{")
		switch {
		case triple && site%2 == 0:
			t = t[1:]
		case triple:
			t = t[:len(t)-1]
		case site%2 == 0:
			t = "{" + t
		default:
			t = t + "}"
		}
		s[i].Text = t
	}
	return model.JoinSegments(s), true
}

func c10Sample(payload string) any {
	i := strings.IndexByte(payload, 0)
	mode, rest := payload[:i], payload[i+1:]
	switch mode {
	case "tree":
		nodes, vars := decTmpl(rest)
		return map[string]any{"template": model.PrintTemplate(nodes), "variables": vars, "reference rendering": model.RenderTemplate(nodes, vars)}
	case "mut":
		parts := strings.SplitN(rest, "\x00", 3)
		site, _ := strconv.Atoi(parts[1])
		var nodes []*model.TNode
		json.Unmarshal([]byte(parts[2]), &nodes)
		segs := model.PrintSegments(nodes)
		src, _ := mutateTemplate(segs, parts[0], site)
		return map[string]any{"malformed class": parts[0], "from": model.JoinSegments(segs), "malformed template": src}
	}
	lex := strings.Split(rest, " ")
	v, why, _ := model.ClassifyLexemes(lex)
	return map[string]any{"lexemes": lex, "template": model.JoinLexemes(lex), "classifier": v + " " + why}
}

func buildC10(cfg *mon.Config) []*mon.Sub {
	trees := &mon.Sub{
		Name:  "generated-trees",
		Rule:  fmt.Sprintf("seeded template trees of depth <= %d and up to %d nodes per level mixing literal text (all of Unicode incl. single braces, quotes, astral characters), variables, escaped variables, comments and nested sections in every spelling ('#', '#if', '^', '#unless'; closed by name, '/if', '/unless'; double and triple braces; blanks, tabs, line breaks and control characters inside tags), names from ASCII, Latin-1 and Cyrillic in random letter case, x variable maps with present, absent and empty values (values with every escaped character, non-ASCII, brace runs) and keys in random letter case; oracle: SetTemplate succeeds and the rendering equals the reference rendering of the tree (text verbatim, value or nothing, escaped value, body iff present and non-empty / iff not, case-insensitive keys), also on an instance that parsed another template before, with an explicitly passed empty map, and when the text (with blanks around it, which are literal text on this route) is cut by a stand-alone mustache tokenizer and handed over with SetOriginalTokens; non-trivial = the template has a section; distinct by hash", cfg.N(3, 6), cfg.N(6, 12)),
		Floor: 500,
		Gen: func(emit func(string)) {
			r := cfg.Rng("c10-trees")
			g := &tmplGen{r: r}
			for i := 0; i < cfg.N(10000, 600000); i++ {
				nodes := sanitizeTemplate(g.nodes(1+r.Intn(cfg.N(3, 6)), 1+r.Intn(cfg.N(6, 12))))
				if len(nodes) == 0 {
					nodes = []*model.TNode{{Kind: "var", Text: "a"}}
				}
				emit("tree\x00" + encTmpl(nodes, g.vars(nodes)))
			}
		},
		Exec: c10Exec, Sample: c10Sample,
		Final: func(r *mon.SubReport) string {
			for _, k := range []string{"text", "var", "comment", "section"} {
				if r.Tables["node-kinds-rendered"][k] == 0 {
					return "no successfully rendered template contained a " + k + " node"
				}
			}
			return ""
		},
	}
	mut := &mon.Sub{
		Name:  "malformed-by-construction",
		Rule:  "well-formed printings made malformed in exactly one way: closing braces of a tag dropped (unclosed tag), a section end dropped (unclosed section), a stray {{/zz}} added at top level (unopened section), a section end renamed (mismatched section), one brace added or removed on one side of a tag (mismatched brace counts); oracle: SetTemplate returns an error, never a panic; non-trivial always; distinct by hash",
		Floor: 500,
		Gen: func(emit func(string)) {
			r := cfg.Rng("c10-mut")
			g := &tmplGen{r: r}
			for i := 0; i < cfg.N(5000, 300000); i++ {
				nodes := sanitizeTemplate(g.nodes(1+r.Intn(3), 2+r.Intn(6)))
				if len(nodes) == 0 || commentHasQuote(nodes) {
					continue // quote characters in comment bodies are a known finding of their own
				}
				a, _ := json.Marshal(nodes)
				emit("mut\x00" + mon.Pick(r, tmplMutations) + "\x00" + strconv.Itoa(r.Intn(1000)) + "\x00" + string(a))
			}
		},
		Exec: c10Exec, Sample: c10Sample,
		Final: func(r *mon.SubReport) string {
			for _, k := range tmplMutations {
				if r.Tables["malformed-classes-rejected"][k] == 0 {
					return "malformed class never exercised: " + k
				}
			}
			return ""
		},
	}
	maxLex := cfg.N(5, 6)
	lexAlpha := []string{"{{", "{{{", "}}", "}}}", "#", "^", "/", "!", "if", "unless", "a", "B", "t"}
	lex := &mon.Sub{
		Name:          "exhaustive-lexeme-strings",
		Rule:          fmt.Sprintf("every sequence of 1..%d template lexemes over %v (word-like lexemes inside a tag separated by one blank); a three-valued reference classifier decides well-formed (then the rendering under a fixed map must equal the reference) / malformed in one of the four classes of the statement (then SetTemplate must fail) / not determined by the statement (brace runs that would merge, tags with two names, empty tags, sections named if/unless, operators in odd places: only 'no panic' is asserted); non-trivial = the verdict was determined", maxLex, lexAlpha),
		Exhaustive:    true,
		DistinctByGen: true,
		Floor:         1000,
		Gen: func(emit func(string)) {
			enumStrings(lexAlpha, maxLex, func(parts []string) {
				if len(parts) > 0 {
					emit("lex\x00" + strings.Join(parts, " "))
				}
			})
		},
		Exec: c10Exec, Sample: c10Sample,
	}
	deep := &mon.Sub{
		Name: "deep-nesting", Rule: "for every n in 1..40 and 64, 65, 100, 257: n sections nested inside each other (alternating spellings, normal and inverted, all rendered) with text before, inside and after, under a map that opens every section; rendered on a fresh instance and compared with the reference; plus the same with the innermost end tag missing, which must be rejected",
		Exhaustive: true, DistinctByGen: true, Floor: 20,
		Gen: func(emit func(string)) {
			sizes := []int{}
			for n := 1; n <= 40; n++ {
				sizes = append(sizes, n)
			}
			sizes = append(sizes, 64, 65, 100, 257)
			for _, n := range sizes {
				inner := []*model.TNode{{Kind: "text", Text: "core"}, {Kind: "var", Text: "a"}}
				vars := map[string]string{"a": "A"}
				for i := n; i >= 1; i-- {
					name := fmt.Sprintf("s%d", i)
					open := []string{"#", "#if", "^", "#unless"}[i%4]
					inv := open == "^" || open == "#unless"
					if !inv {
						vars[name] = "1"
					}
					sec := &model.TNode{Kind: "section", Text: name, Open: open, Inv: inv, Close: []string{"name", "if", "unless"}[i%3], Body: inner}
					inner = []*model.TNode{{Kind: "text", Text: fmt.Sprintf("<%d>", i)}, sec, {Kind: "text", Text: fmt.Sprintf("</%d>", i)}}
				}
				top := append([]*model.TNode{{Kind: "text", Text: "before "}}, inner...)
				top = append(top, &model.TNode{Kind: "text", Text: " after"}, &model.TNode{Kind: "var", Text: "a"})
				emit("tree\x00" + encTmpl(top, vars))
				a, _ := json.Marshal(top)
				emit("mut\x00unclosed section\x000\x00" + string(a))
			}
		},
		Exec: c10Exec, Sample: c10Sample,
	}
	return []*mon.Sub{trees, mut, lex, deep}
}
