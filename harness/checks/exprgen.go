package checks

import (
	"encoding/json"
	"strings"
	"time"

	"verifharness/model"
	"verifharness/mon"
)

// Expression tree generators and concrete-syntax printers.

func etok(text string) model.ETok {
	u := strings.ToUpper(text)
	switch text {
	case "(", ")", "[", "]", ",":
		return model.ETok{Kind: text, Text: text}
	case "+", "-", "*", "/", "%", "^", "=", "<>", "!=", ">", "<", ">=", "<=", "<<", ">>":
		return model.ETok{Kind: "op", Text: text}
	}
	switch u {
	case "AND", "OR", "XOR", "NOT", "IS", "IN", "NULL", "LIKE":
		return model.ETok{Kind: "kw", Text: u}
	case "TRUE", "FALSE":
		return model.ETok{Kind: "const", Text: u, Lit: text}
	}
	if text == "" {
		return model.ETok{Kind: "bad"}
	}
	c := text[0]
	switch {
	case c == '\'' || (c >= '0' && c <= '9') || c == '.':
		return model.ETok{Kind: "const", Lit: text}
	case c == '"' || c == '_' || (c >= 'a' && c <= 'z') || (c >= 'A' && c <= 'Z') || (c >= 0xC3 && len(text) >= 2 && (text[0] == 0xC3)):
		return model.ETok{Kind: "id", Lit: text}
	}
	return model.ETok{Kind: "bad", Text: text}
}

func etoks(parts []string) []model.ETok {
	out := make([]model.ETok, len(parts))
	for i, p := range parts {
		out[i] = etok(p)
	}
	return out
}

func encNode(n *model.Node) string { b, _ := json.Marshal(n); return string(b) }
func decNode(s string) *model.Node {
	var n model.Node
	json.Unmarshal([]byte(s), &n)
	return &n
}

var binOps = []string{"AND", "OR", "XOR", "=", "<>", "!=", ">", "<", ">=", "<=", "+", "-", "LIKE", "NOTLIKE", "NOTIN", "*", "/", "%", "^", "IN", "<<", ">>"}

type exprGen struct {
	r *mon.Rng
}

func leafConst(lit string) *model.Node { return &model.Node{Op: "const", Lit: lit} }
func leafVar(name string) *model.Node  { return &model.Node{Op: "var", Lit: name} }
func binNode(op string, l, r *model.Node) *model.Node {
	return &model.Node{Op: op, Kids: []*model.Node{l, r}}
}
func unNode(op string, x *model.Node) *model.Node { return &model.Node{Op: op, Kids: []*model.Node{x}} }

// the standard environment of the typed generator
func stdEnv(r *mon.Rng) *env {
	primes := []int{2, 3, 5, 7, 11, 13, 17, 19, 23}
	pi := func() Val { return vInt(mon.Pick(r, primes)) }
	e := &env{}
	add := func(n string, v Val) { e.names = append(e.names, n); e.vals = append(e.vals, v) }
	add("a", pi())
	add("b", pi())
	add("c", pi())
	add("d", vInt(-mon.Pick(r, primes)))
	add("l", vLong(int64(mon.Pick(r, primes))))
	add("f", vFloat(2.5))
	add("x", vDouble(1.5))
	add("s", vStr(mon.Pick(r, []string{"ab", "b", "Ab", "é"})))
	add("t", vStr(mon.Pick(r, []string{"b", "c", ""})))
	add("p", vBool(true))
	add("q", vBool(false))
	add("n", vNull())
	add("arr", vArr(vInt(2), vInt(3), vInt(5)))
	add("sarr", vArr(vStr("ab"), vStr("b")))
	add("z", vInt(0))
	add("my var", vInt(4))
	add("not", vInt(6)) // reachable only as quoted identifiers
	add("FALSE", vBool(true))
	add("in", vInt(9))
	add("\"a\"", vInt(29)) // a name that itself starts and ends with a quote character: written """a"""
	add(" ", vInt(31))     // a name made of one blank: written " " in double quotes
	add("ds", vStr(mon.Pick(r, []string{"2024-01-01T10:00:00Z", "2024-01-02T10:00:00Z", "2024-01-03T10:00:00Z", "2024-01-04T10:00:00Z", "2024-01-05T10:00:00Z", "2024-01-06T23:30:00-11:00"})))
	add("dt", vTime(time.Unix(int64(86400*(19000+r.Intn(7))), 0).UTC()))
	return e
}

var intVars = []string{"a", "b", "c", "d", "l", "z"}
var intLits = []string{"2", "3", "5", "7", "11", "1", "0", "13", "010", "0017", "08", "0100"}

func (g *exprGen) typed(depth int, want string) *model.Node {
	r := g.r
	if depth <= 0 || r.Chance(1, 5) {
		switch want {
		case "int":
			if r.Bool() {
				return leafConst(mon.Pick(r, intLits))
			}
			return leafVar(mon.Pick(r, intVars))
		case "bool":
			return mon.Pick(r, []*model.Node{leafConst("TRUE"), leafConst("false"), leafVar("p"), leafVar("q")})
		case "str":
			return mon.Pick(r, []*model.Node{leafConst("'ab'"), leafConst("'b'"), leafConst("'it''s'"), leafVar("s"), leafVar("t"), leafConst("'2'"), leafConst("'11'"), leafConst("'1.5'")})
		case "num":
			return mon.Pick(r, []*model.Node{leafConst("1.5"), leafConst("2e1"), leafVar("f"), leafVar("x"), leafConst("3"), leafVar("a"), leafConst("1e39"), leafConst("4E+38"), leafConst("0.5e-46"), leafConst("3.4e38"), leafConst("1e-45"), leafConst("1.0000000596046447753906250000001"), leafConst("16777217.000000000000001"), leafConst("0.1000000014901161193847656250000001")})
		}
		return mon.Pick(r, []*model.Node{leafVar("n"), leafVar("arr"), leafVar("a"), leafConst("'b'"), leafVar("p"), leafVar("x")})
	}
	d := depth - 1
	switch want {
	case "int":
		switch r.Intn(14) {
		case 0, 1:
			return binNode("+", g.typed(d, "int"), g.typed(d, "int"))
		case 2, 3:
			return binNode("-", g.typed(d, "int"), g.typed(d, "int"))
		case 4, 5:
			return binNode("*", g.typed(d, "int"), g.typed(d, "int"))
		case 6:
			return binNode("/", g.typed(d, "int"), g.typed(d, "int"))
		case 7:
			return binNode("%", g.typed(d, "int"), g.typed(d, "int"))
		case 8:
			return binNode(mon.Pick(r, []string{"<<", ">>"}), g.typed(d, "int"), leafConst(mon.Pick(r, []string{"0", "1", "2", "3"})))
		case 9:
			return unNode(mon.Pick(r, []string{"neg", "pos"}), g.typed(d, "int"))
		case 10:
			return &model.Node{Op: "index", Kids: []*model.Node{leafVar("arr"), g.typed(0, "int")}}
		case 11:
			return binNode(mon.Pick(r, []string{"AND", "OR", "XOR"}), g.typed(d, "int"), g.typed(d, "int"))
		case 12:
			name := mon.Pick(r, []string{"Min", "max", "SUM"})
			k := 2 + r.Intn(3)
			n := &model.Node{Op: "call", Lit: name}
			for i := 0; i < k; i++ {
				n.Kids = append(n.Kids, g.typed(d, "int"))
			}
			return n
		default:
			if r.Bool() {
				return &model.Node{Op: "call", Lit: "If", Kids: []*model.Node{g.typed(d, "bool"), g.typed(d, "int"), g.typed(d, "int")}}
			}
			return &model.Node{Op: "call", Lit: "Choose", Kids: []*model.Node{leafConst(mon.Pick(r, []string{"1", "2", "3"})), g.typed(d, "int"), g.typed(d, "int"), g.typed(d, "int")}}
		}
	case "num":
		switch r.Intn(5) {
		case 0:
			return binNode("^", g.typed(d, "int"), leafConst(mon.Pick(r, []string{"2", "3", "0", "1"})))
		case 1:
			return binNode(mon.Pick(r, []string{"+", "-", "*", "/"}), g.typed(d, "num"), g.typed(d, "num"))
		case 2:
			return unNode("neg", g.typed(d, "num"))
		case 3:
			return &model.Node{Op: "call", Lit: mon.Pick(r, []string{"Abs", "Sqrt", "floor", "ROUND"}), Kids: []*model.Node{g.typed(d, "num")}}
		}
		return g.typed(d, "int")
	case "bool":
		switch r.Intn(12) {
		case 0, 1, 2:
			return binNode(mon.Pick(r, []string{"=", "<>", "!=", ">", "<", ">=", "<="}), g.typed(d, "int"), g.typed(d, "int"))
		case 3:
			return binNode(mon.Pick(r, []string{"=", "<>", ">", "<", ">=", "<="}), g.typed(d, "str"), g.typed(d, "str"))
		case 4, 5:
			return binNode(mon.Pick(r, []string{"AND", "OR", "XOR"}), g.typed(d, "bool"), g.typed(d, "bool"))
		case 6:
			return unNode("not", g.typed(d, "bool"))
		case 7:
			return unNode(mon.Pick(r, []string{"isnull", "isnotnull"}), g.typed(d, "any"))
		case 8:
			return binNode(mon.Pick(r, []string{"IN", "NOTIN"}), g.typed(d, "int"), leafVar("arr"))
		case 9:
			return binNode(mon.Pick(r, []string{"IN", "NOTIN"}), g.typed(d, "str"), leafVar("sarr"))
		case 10:
			return binNode(mon.Pick(r, []string{"=", "<", ">="}), g.typed(d, "num"), g.typed(d, "num"))
		default:
			return &model.Node{Op: "call", Lit: "Contains", Kids: []*model.Node{g.typed(d, "str"), g.typed(d, "str")}}
		}
	case "str":
		switch r.Intn(4) {
		case 0, 1:
			return binNode("+", g.typed(d, "str"), g.typed(d, mon.Pick(r, []string{"str", "int", "bool"})))
		case 2:
			return &model.Node{Op: "index", Kids: []*model.Node{leafVar("s"), leafConst(mon.Pick(r, []string{"0", "1"}))}}
		}
		return &model.Node{Op: "call", Lit: "If", Kids: []*model.Node{g.typed(d, "bool"), g.typed(d, "str"), g.typed(d, "str")}}
	}
	return g.typed(d, mon.Pick(r, []string{"int", "bool", "str", "num"}))
}

// shape produces trees with operators chosen uniformly, regardless of types.
func (g *exprGen) shape(depth int) *model.Node {
	r := g.r
	if depth <= 0 || r.Chance(1, 6) {
		if r.Chance(1, 3) {
			return leafConst(mon.Pick(r, []string{"2", "3", "5", "'s'", "TRUE", "1.5", "7", "'2'", "'3'", "'1.5'", "'TRUE'", "'a'"}))
		}
		return leafVar(mon.Pick(r, []string{"a", "b", "c", "s", "p", "n", "arr", "\"my var\"", "\"not\"", "\"FALSE\"", "\"in\"", "\"\"\"a\"\"\"", "\" \""}))
	}
	d := depth - 1
	switch x := r.Intn(30); {
	case x < 22:
		return binNode(binOps[x], g.shape(d), g.shape(d))
	case x < 24:
		return unNode(mon.Pick(r, []string{"neg", "pos"}), g.shape(d))
	case x < 25:
		return unNode("not", g.shape(d))
	case x < 27:
		return unNode(mon.Pick(r, []string{"isnull", "isnotnull"}), g.shape(d))
	case x < 28:
		return &model.Node{Op: "index", Kids: []*model.Node{g.shape(d), g.shape(d)}}
	default:
		n := &model.Node{Op: "call", Lit: mon.Pick(r, []string{"Min", "Array", "f", "Sum", "Pi", "If", "Min", "Array", "Sum", "If", "StandardDeviation", "LeastCommonMultiple", "a_function_nobody_defined_anywhere", "Zzzzzzzzzzzzzzzzzzzzzzzz"})}
		for i := r.Intn(4); i > 0; i-- {
			n.Kids = append(n.Kids, g.shape(d))
		}
		return n
	}
}

// printings renders a tree in the four styles used by C01: minimal with single
// blanks; fully parenthesised; random redundant parentheses, spacing, comments
// and keyword case; minimal with blanks only where tokens would merge.
func printings(n *model.Node, seed uint64) []string {
	r := mon.NewRng(seed, "print")
	kwCase := func(s string) string {
		b := []byte(s)
		for i := range b {
			if r.Bool() {
				b[i] |= 0x20
			}
		}
		return string(b)
	}
	spaces := []string{" ", "  ", "\t", "\n", " \r\n ", ""}
	comments := []string{"/* c */", "/**/", "/* a + b */", "/* ' */", "/*\n*/", "/* a **/", "/***/", "/** doc **/"}
	rich := &model.PrintOptions{
		Extra:   func() bool { return r.Chance(1, 6) },
		Space:   func() string { return mon.Pick(r, spaces) },
		Keyword: kwCase,
		Comments: func() string {
			if r.Chance(1, 8) {
				return mon.Pick(r, comments)
			}
			return ""
		},
	}
	tight := &model.PrintOptions{Space: func() string { return "" }, Keyword: strings.ToLower}
	return []string{
		model.Join(model.Tokens(n, nil), nil),
		model.Join(model.Tokens(n, &model.PrintOptions{Full: true}), nil),
		model.Join(model.Tokens(n, rich), rich),
		model.Join(model.Tokens(n, tight), tight),
	}
}
