package checks

import (
	"strings"

	"github.com/pip-services3-gox/pip-services3-expressions-gox/tokenizers"

	"verifharness/mon"
)

// C13 — lexeme sequences tokenize back to themselves with the right classes.

func init() { mon.Register("C13", buildC13) }

func c13Exec(c *mon.Case) {
	i := strings.IndexByte(c.Payload, 0)
	kind := c.Payload[:i]
	want := decLex(c.Payload[i+1:])
	input := lexText(want)
	got, p := runOptions(kind, input, 0)
	if p != nil {
		if _, ok := p.Val.(mon.NoProgress); ok {
			c.Failf(kind+" tokenizer did not terminate", "input=%q", input)
		} else {
			c.FailPanic(kind+" tokenizer", p)
		}
		return
	}
	if n := len(got); n > 0 && got[n-1].Type == tokenizers.Eof {
		got = got[:n-1]
	}
	ok := len(got) == len(want)
	if ok {
		for j := range want {
			if got[j].Type != want[j].Type || got[j].Value != want[j].Text {
				ok = false
				break
			}
		}
	}
	if !ok {
		// classify by the first differing lexeme's class
		cls := "sequence"
		for j := range want {
			if j >= len(got) || got[j].Type != want[j].Type || got[j].Value != want[j].Text {
				cls = tokTypeName(want[j].Type)
				if want[j].Type == tokenizers.Word && firstRune(want[j].Text) >= 0x100 {
					cls = "Word starting with a non-Latin letter"
				}
				if want[j].Type == tokenizers.Symbol && len([]rune(want[j].Text)) > 1 {
					cls = "multi-character Symbol"
				}
				break
			}
		}
		c.Failf(kind+" tokenizer: lexeme sequence not tokenized back to itself (first difference at a "+cls+" lexeme)",
			"input=%q\nwant %s\ngot  %s", input, lexString(want), toksString(got))
		return
	}
	if len(want) > 1 {
		c.NonTrivial()
	}
	for _, l := range want {
		c.Mark("lexeme-classes-"+kind, tokTypeName(l.Type))
	}
}

func buildC13(cfg *mon.Config) []*mon.Sub {
	installLoopMonitor()
	var subs []*mon.Sub
	for _, kind := range []string{"expression", "generic"} {
		kind := kind
		subs = append(subs, &mon.Sub{
			Name:  "random-sequences-" + kind,
			Rule:  "seeded sequences of 1.." + map[bool]string{true: "8", false: "40"}[cfg.Quick()] + " lexemes from the " + kind + " lexical grammar (identifiers incl. non-Latin, keywords in random case, integers, decimals '1.5' '.5' '5.', scientific, quoted strings with doubled quotes/newlines/non-ASCII, comments, whitespace runs, single and multi-character symbols), a blank lexeme inserted where the conservative adjacency table says neighbours could merge; oracle: tokenization with options off equals the lexeme list (type and text); non-trivial = more than one lexeme, distinct by hash",
			Floor: 1000,
			Gen: func(emit func(string)) {
				r := cfg.Rng("c13-" + kind)
				g := &lexGen{kind: kind, r: r}
				for i := 0; i < cfg.N(20000, 1000000); i++ {
					n := 1 + r.Intn(cfg.N(8, 40))
					emit(kind + "\x00" + encLex(g.sequence(n)))
				}
			},
			Exec: c13Exec,
			Sample: func(p string) any {
				i := strings.IndexByte(p, 0)
				return map[string]string{"tokenizer": p[:i], "lexemes": lexString(decLex(p[i+1:]))}
			},
			Final: func(r *mon.SubReport) string {
				need := []string{"Word", "Integer", "Float", "Quoted", "Comment", "Whitespace", "Symbol"}
				if kind == "expression" {
					need = append(need, "Keyword")
				}
				for _, n := range need {
					if r.Tables["lexeme-classes-"+kind][n] == 0 {
						return "no passing sequence contained a " + n + " lexeme"
					}
				}
				return ""
			},
		})
		subs = append(subs, &mon.Sub{
			Name:          "symbol-after-sibling-" + kind,
			Rule:          "every ordered pair and triple of the tokenizer's multi-character symbols and their single-character prefixes, blank separated, so each symbol is read after each of its siblings; plus every keyword in upper, lower and mixed case; all distinct by construction",
			Exhaustive:    true,
			DistinctByGen: true,
			Floor:         10,
			Gen: func(emit func(string)) {
				syms := append([]string{}, genericMultiSymbols...)
				if kind == "expression" {
					syms = append([]string{}, exprMultiSymbols...)
				}
				syms = append(syms, "<", ">", "=", "!")
				sp := lex{tokenizers.Whitespace, " "}
				for _, a := range syms {
					for _, b := range syms {
						emit(kind + "\x00" + encLex([]lex{{tokenizers.Symbol, a}, sp, {tokenizers.Symbol, b}}))
						for _, d := range syms {
							emit(kind + "\x00" + encLex([]lex{{tokenizers.Symbol, a}, sp, {tokenizers.Symbol, b}, sp, {tokenizers.Symbol, d}}))
						}
					}
				}
				if kind == "expression" {
					// identifiers that only look like keywords: the Kelvin sign is not a letter-case variant of K
					for _, w := range []string{"LI\u212aE", "li\u212ae", "x\u212a", "ANDY", "NOTE", "INN", "ISO", "NULLS", "TRUEST", "ORB", "XORS", "FALSEHOOD", "A_AND", "_OR"} {
						emit(kind + "\x00" + encLex([]lex{{tokenizers.Word, w}}))
						emit(kind + "\x00" + encLex([]lex{{tokenizers.Integer, "1"}, sp, {tokenizers.Word, w}, sp, {tokenizers.Keyword, "and"}}))
					}
					for _, k := range exprKeywords {
						for _, v := range []string{k, strings.ToLower(k), k[:1] + strings.ToLower(k[1:]), strings.ToLower(k[:1]) + k[1:]} {
							emit(kind + "\x00" + encLex([]lex{{tokenizers.Keyword, v}}))
							emit(kind + "\x00" + encLex([]lex{{tokenizers.Word, "x"}, sp, {tokenizers.Keyword, v}, sp, {tokenizers.Integer, "1"}}))
						}
					}
				}
			},
			Exec: c13Exec,
			Sample: func(p string) any {
				i := strings.IndexByte(p, 0)
				return map[string]string{"tokenizer": p[:i], "lexemes": lexString(decLex(p[i+1:]))}
			},
		})
	}
	return subs
}
