package checks

import (
	"fmt"
	"math"
	"strconv"
	"strings"
	"time"
	_ "time/tzdata"

	"github.com/pip-services3-gox/pip-services3-expressions-gox/calculator"
	"github.com/pip-services3-gox/pip-services3-expressions-gox/calculator/functions"
	"github.com/pip-services3-gox/pip-services3-expressions-gox/calculator/variables"
	"github.com/pip-services3-gox/pip-services3-expressions-gox/variants"

	"verifharness/mon"
)

// C08 — built-in functions compute what their names denote.

func init() { mon.Register("C08", buildC08) }

var c08Names = []string{"Ticks", "TimeSpan", "Now", "Date", "DayOfWeek", "Min", "Max", "Sum", "If", "Choose", "E", "Pi", "Rnd", "Random", "Abs", "Acos", "Asin", "Atan",
	"Exp", "Log", "Ln", "Log10", "Ceil", "Ceiling", "Floor", "Round", "Trunc", "Truncate", "Cos", "Sin", "Tan", "Sqr", "Sqrt", "Empty", "Null", "Contains", "Array"}

var c08Math = map[string]func(float64) float64{
	"ACOS": math.Acos, "ASIN": math.Asin, "ATAN": math.Atan, "EXP": math.Exp, "LOG": math.Log, "LN": math.Log, "LOG10": math.Log10,
	"CEIL": math.Ceil, "CEILING": math.Ceil, "FLOOR": math.Floor, "ROUND": math.Round, "COS": math.Cos, "SIN": math.Sin, "TAN": math.Tan,
	"SQR": math.Sqrt, "SQRT": math.Sqrt,
}

func arityOK(name string, n int) bool {
	switch name {
	case "TICKS", "NOW", "E", "PI", "RND", "RANDOM", "NULL":
		return n == 0
	case "ABS", "DAYOFWEEK", "EMPTY", "TRUNC", "TRUNCATE":
		return n == 1
	case "CONTAINS":
		return n == 2
	case "IF":
		return n == 3
	case "MIN", "MAX", "SUM":
		return n >= 2
	case "CHOOSE":
		return n >= 3
	case "TIMESPAN":
		return n == 1 || n == 3 || n == 4 || n == 5
	case "DATE":
		return n >= 1 && n <= 7
	case "ARRAY":
		return true
	}
	if _, ok := c08Math[name]; ok {
		return n == 1
	}
	panic("unknown function " + name)
}

// expectation kinds
const (
	exValue    = iota // must equal want (bit-exact for floats, NaN-aware)
	exError           // must be an error
	exUnspec          // only result xor error
	exInstant         // DateTime equal to want as an instant
	exOneOf           // DateTime equal to want or alt as an instant
	exClockSec        // Long within the call interval (some unit)
	exClockNow        // DateTime within the call interval
	exRnd             // Float in [0,1)
)

type c08Exp struct {
	kind      int
	want, alt Val
	note      string
}

func c08Ref(mgr variants.IVariantOperations, name string, args []Val) c08Exp {
	up := strings.ToUpper(name)
	if !arityOK(up, len(args)) {
		return c08Exp{kind: exError}
	}
	conv := func(v Val, T string) (Val, bool) {
		var r *variants.Variant
		var err error
		if p := mon.Try(func() { r, err = mgr.Convert(v.Variant(), tagType[T]) }); p != nil || err != nil || r == nil {
			return Val{}, false
		}
		s := snap(r)
		return s, s.T == T
	}
	if f, ok := c08Math[up]; ok {
		x, ok := conv(args[0], "D")
		if !ok {
			return c08Exp{kind: exError}
		}
		return c08Exp{kind: exValue, want: vDouble(f(x.Double()))}
	}
	switch up {
	case "TICKS":
		return c08Exp{kind: exClockSec}
	case "NOW":
		return c08Exp{kind: exClockNow}
	case "RND", "RANDOM":
		return c08Exp{kind: exRnd}
	case "E":
		return c08Exp{kind: exValue, want: vFloat(float32(math.E))}
	case "PI":
		return c08Exp{kind: exValue, want: vFloat(float32(math.Pi))}
	case "NULL":
		return c08Exp{kind: exValue, want: vNull()}
	case "ARRAY":
		return c08Exp{kind: exValue, want: vArr(args...)}
	case "EMPTY":
		switch a := args[0]; {
		case a.T == "N":
			return c08Exp{kind: exValue, want: vBool(true)}
		case (a.T == "S" && a.V == "") || (a.T == "A" && len(a.E) == 0):
			return c08Exp{kind: exUnspec, note: "Empty of an empty string or array"}
		}
		return c08Exp{kind: exValue, want: vBool(false)}
	case "CONTAINS":
		s, ok1 := conv(args[0], "S")
		sub, ok2 := conv(args[1], "S")
		if !ok1 || !ok2 {
			return c08Exp{kind: exError}
		}
		return c08Exp{kind: exValue, want: vBool(strings.Contains(s.V, sub.V))}
	case "ABS":
		switch a := args[0]; a.T {
		case "I":
			if a.Int() == math.MinInt64 {
				return c08Exp{kind: exUnspec, note: "Abs of the minimum integer"}
			}
			if a.Int() < 0 {
				return c08Exp{kind: exValue, want: vInt(-a.Int())}
			}
			return c08Exp{kind: exValue, want: a}
		case "L":
			if a.Long() == math.MinInt64 {
				return c08Exp{kind: exUnspec, note: "Abs of the minimum integer"}
			}
			if a.Long() < 0 {
				return c08Exp{kind: exValue, want: vLong(-a.Long())}
			}
			return c08Exp{kind: exValue, want: a}
		case "F":
			return c08Exp{kind: exValue, want: vFloat(float32(math.Abs(float64(a.Float()))))}
		case "D":
			return c08Exp{kind: exValue, want: vDouble(math.Abs(a.Double()))}
		}
		x, ok := conv(args[0], "D")
		if !ok {
			return c08Exp{kind: exError}
		}
		return c08Exp{kind: exValue, want: vDouble(math.Abs(x.Double()))}
	case "TRUNC", "TRUNCATE":
		x, ok := conv(args[0], "D")
		if !ok {
			return c08Exp{kind: exError}
		}
		d := x.Double()
		if d != d || math.Abs(d) >= 1<<63 {
			return c08Exp{kind: exUnspec, note: "Trunc of NaN, Inf or a value beyond the long range"}
		}
		return c08Exp{kind: exValue, want: vLong(int64(math.Trunc(d)))}
	case "MIN", "MAX":
		best := args[0]
		for _, v := range args[1:] {
			var r *variants.Variant
			var err error
			p := mon.Try(func() {
				if up == "MIN" {
					r, err = mgr.More(best.Variant(), v.Variant())
				} else {
					r, err = mgr.Less(best.Variant(), v.Variant())
				}
			})
			if p != nil || err != nil || r == nil {
				return c08Exp{kind: exError}
			}
			s := snap(r)
			if s.T != "B" {
				return c08Exp{kind: exError} // not comparable (e.g. a Null argument): inapplicable
			}
			if s.Bool() {
				best = v
			}
		}
		return c08Exp{kind: exValue, want: best}
	case "SUM":
		acc := args[0]
		for _, v := range args[1:] {
			var r *variants.Variant
			var err error
			if p := mon.Try(func() { r, err = mgr.Add(acc.Variant(), v.Variant()) }); p != nil || err != nil || r == nil {
				return c08Exp{kind: exError}
			}
			acc = snap(r)
		}
		return c08Exp{kind: exValue, want: acc}
	case "IF":
		cnd, ok := conv(args[0], "B")
		if !ok {
			return c08Exp{kind: exError}
		}
		if cnd.Bool() {
			return c08Exp{kind: exValue, want: args[1]}
		}
		return c08Exp{kind: exValue, want: args[2]}
	case "CHOOSE":
		sel, ok := conv(args[0], "I")
		if !ok {
			return c08Exp{kind: exError}
		}
		k := sel.Int()
		if k == 0 {
			return c08Exp{kind: exUnspec, note: "Choose with selector 0"}
		}
		if k < 0 || k >= len(args) {
			return c08Exp{kind: exError}
		}
		return c08Exp{kind: exValue, want: args[k]}
	case "TIMESPAN":
		var p [5]int64
		for i := range args {
			x, ok := conv(args[i], "L")
			if !ok {
				return c08Exp{kind: exError}
			}
			p[i] = x.Long()
		}
		if len(args) == 1 {
			return c08Exp{kind: exValue, want: vSpan(time.Millisecond * time.Duration(p[0]))}
		}
		ms := (((p[0]*24+p[1])*60+p[2])*60+p[3])*1000 + p[4]
		return c08Exp{kind: exValue, want: vSpan(time.Millisecond * time.Duration(ms))}
	case "DATE":
		if len(args) == 1 {
			x, ok := conv(args[0], "L")
			if !ok {
				return c08Exp{kind: exError}
			}
			return c08Exp{kind: exInstant, want: vTime(time.Unix(x.Long(), 0))}
		}
		p := [7]int{0, 1, 1, 0, 0, 0, 0}
		for i := range args {
			x, ok := conv(args[i], "I")
			if !ok {
				return c08Exp{kind: exError}
			}
			p[i] = x.Int()
		}
		for _, x := range p {
			if x > 1<<40 || x < -(1<<40) {
				return c08Exp{kind: exUnspec, note: "Date component beyond any calendar range"}
			}
		}
		asNs := time.Date(p[0], time.Month(p[1]), p[2], p[3], p[4], p[5], p[6], time.Local)
		asMs := time.Date(p[0], time.Month(p[1]), p[2], p[3], p[4], p[5], 0, time.Local).Add(time.Duration(p[6]) * time.Millisecond)
		return c08Exp{kind: exOneOf, want: vTime(asNs), alt: vTime(asMs)}
	case "DAYOFWEEK":
		x, ok := conv(args[0], "T")
		if !ok {
			return c08Exp{kind: exError}
		}
		return c08Exp{kind: exValue, want: vInt(int(x.Time().Weekday()))}
	}
	panic("no reference for " + name)
}

func valuesMatch(got, want Val) bool {
	if got.Same(want) {
		return true
	}
	if got.T != want.T {
		return false
	}
	switch got.T {
	case "D":
		return sameFloat(got.Double(), want.Double())
	case "F":
		return sameFloat(float64(got.Float()), float64(want.Float()))
	case "T":
		return got.Time().Equal(want.Time())
	case "A":
		if len(got.E) != len(want.E) {
			return false
		}
		for i := range got.E {
			if !valuesMatch(got.E[i], want.E[i]) {
				return false
			}
		}
		return true
	}
	return false
}

// payload: mgr \x00 mode \x00 spelling \x00 json(args)
func c08Exec(c *mon.Case) {
	parts := strings.SplitN(c.Payload, "\x00", 4)
	mgrName, mode, name := parts[0], parts[1], parts[2]
	args := decVals(parts[3])
	mgr := manager(mgrName)
	exp := c08Ref(mgr, name, args)
	var res *variants.Variant
	var err error
	before := time.Now()
	if mode == "direct" {
		f := functions.NewDefaultFunctionCollection().FindByName(name)
		if f == nil {
			c.Failf("default function not found by name in another letter case", "FindByName(%q) = nil", name)
			return
		}
		// the argument list is the front part of a longer list the caller goes on using (spare capacity behind it)
		backing := make([]*variants.Variant, len(args)+3)
		for i, a := range args {
			backing[i] = a.Variant()
		}
		var guard [3]*variants.Variant
		for i := range guard {
			guard[i] = variants.VariantFromInteger(7001 + i)
			backing[len(args)+i] = guard[i]
		}
		params := backing[:len(args)]
		if p := mon.Try(func() { res, err = f.Calculate(params, mgr) }); p != nil {
			c.FailPanic("function "+strings.ToUpper(name), p)
			return
		}
		for i := range guard {
			if backing[len(args)+i] != guard[i] || guard[i].Type() != variants.Integer || guard[i].AsInteger() != 7001+i {
				c.Failf("function wrote into the caller's list behind its arguments", "%s(%v) called with the first %d entries of a longer list: entry %d behind them is now %s", name, args, len(args), i, snap(backing[len(args)+i]))
				return
			}
		}
		for i, a := range args {
			if !snap(params[i]).Same(a) {
				c.Failf("function modified an argument", "%s(%v): argument %d is now %s", name, args, i, snap(params[i]))
				return
			}
		}
	} else {
		var b strings.Builder
		b.WriteString(name + "(")
		vars := variables.NewVariableCollection()
		for i, a := range args {
			if i > 0 {
				b.WriteString(", ")
			}
			vn := fmt.Sprintf("v%d", i)
			b.WriteString(vn)
			vars.Add(variables.NewVariable(vn, a.Variant()))
		}
		b.WriteString(")")
		calc := calculator.NewExpressionCalculator()
		calc.SetVariantOperations(mgr)
		var perr error
		if p := mon.Try(func() { perr = calc.SetExpression(b.String()) }); p != nil {
			c.FailPanic("SetExpression", p)
			return
		}
		if perr != nil {
			c.Failf("a call of a default function is rejected by the parser", "%s: %v", b.String(), perr)
			return
		}
		if p := mon.Try(func() { res, err = calc.EvaluateUsingVariables(vars) }); p != nil {
			c.FailPanic("evaluating "+strings.ToUpper(name)+"(...)", p)
			return
		}
	}
	after := time.Now()
	desc := fmt.Sprintf("%s manager, %s call %s(%v)", mgrName, mode, name, args)
	up := strings.ToUpper(name)
	if (res == nil) == (err == nil) {
		c.Failf("function "+up+" returns neither or both of result and error", "%s -> result=%v err=%v", desc, res, err)
		return
	}
	switch exp.kind {
	case exUnspec:
		c.Unspecified(exp.note)
		return
	case exError:
		if err == nil {
			c.Failf("function "+up+" returns a value for a wrong argument count or an inapplicable argument", "%s -> %s, expected an error", desc, snap(res))
		} else {
			c.Count("defined-error")
		}
		return
	}
	if err != nil {
		c.Failf("function "+up+" fails on valid arguments", "%s -> error %v", desc, err)
		return
	}
	got := snap(res)
	ok := false
	switch exp.kind {
	case exValue:
		ok = valuesMatch(got, exp.want)
	case exInstant:
		ok = got.T == "T" && got.Time().Equal(exp.want.Time())
	case exOneOf:
		ok = got.T == "T" && (got.Time().Equal(exp.want.Time()) || got.Time().Equal(exp.alt.Time()))
	case exRnd:
		ok = got.T == "F" && got.Float() >= 0 && got.Float() < 1
		exp.want = Val{T: "F", V: "in [0,1)"}
	case exClockNow:
		ok = got.T == "T" && !got.Time().Before(before.Truncate(time.Second)) && !got.Time().After(after.Add(time.Second))
		exp.want = vTime(before)
	case exClockSec:
		if got.T == "L" {
			for _, unit := range []int64{1e9, 1e6, 1e3, 100, 1} { // s, ms, µs, 100 ns, ns
				lo, hi := before.UnixNano()/unit, after.UnixNano()/unit
				if got.Long() >= lo-1 && got.Long() <= hi+1 {
					ok = true
				}
			}
		}
		exp.want = vLong(before.Unix())
	}
	if !ok {
		c.Failf("function "+up+" does not compute what its name denotes", "%s -> %s, expected %s", desc, got, exp.want)
		return
	}
	c.NonTrivial()
	c.Mark("functions-with-checked-value", up)
}

// c08Zone: the calendar functions are exercised in a zone with summer time (embedded tz database), so that
// "local time" is not accidentally the same as UTC or a fixed offset.
const c08Zone = "Europe/Berlin"

func lastSunday(year int, month time.Month) int {
	d := time.Date(year, month+1, 0, 12, 0, 0, 0, time.UTC) // last day of the month
	return d.Day() - int(d.Weekday())
}

func buildC08(cfg *mon.Config) []*mon.Sub {
	if loc, err := time.LoadLocation(c08Zone); err == nil {
		time.Local = loc
	}
	spellings := func(n string) []string {
		mixed := []byte(strings.ToLower(n))
		for i := 0; i < len(mixed); i += 2 {
			if mixed[i] >= 'a' && mixed[i] <= 'z' {
				mixed[i] &^= 0x20
			}
		}
		return []string{n, strings.ToUpper(n), string(mixed)}
	}
	rule := "oracle: a reference table of the 37 default functions (arity set; Min/Max/Sum folded with the manager's own More/Less/Add, If/Choose selection (1-based), math.* bit-exact on the manager-converted double, type-preserving Abs, strings.Contains on converted strings, time.Date/time.Unix/weekday/duration arithmetic, clock functions by ordering against readings before and after the call, Rnd in [0,1)); wrong argument count or an argument the manager cannot convert must be an error; never (nil,nil); arguments untouched; non-trivial = a defined value was compared"
	pool := valuePool()
	small := []Val{vNull(), vInt(0), vInt(1), vInt(-1), vInt(2), vInt(3), vInt(-5), vLong(0), vLong(5), vLong(-13), vLong(1<<53 + 1), vLong(minInt), vFloat(-1.5), vFloat(2.5), vDouble(0.5), vDouble(-2.5), vDouble(math.NaN()), vDouble(math.Inf(1)),
		vStr(""), vStr("a"), vStr("abc"), vStr("10"), vStr("2.5"), vBool(true), vBool(false), vSpan(90 * time.Second), vTime(time.Date(1975, 4, 8, 0, 0, 0, 0, time.UTC)), vArr(), vArr(vInt(1), vInt(2), vInt(3)), vObj(0)}
	emitCall := func(emit func(string), name string, args []Val, r *mon.Rng) {
		j := encVals(args...)
		sp := spellings(name)
		for _, m := range []string{"unsafe", "safe"} {
			for _, mode := range []string{"direct", "expr"} {
				if mode == "expr" && strings.ToUpper(name) == "NULL" {
					continue // NULL is a keyword: the function cannot be spelled in an expression
				}
				s := sp[0]
				if r != nil {
					s = mon.Pick(r, sp)
				}
				emit(m + "\x00" + mode + "\x00" + s + "\x00" + j)
			}
		}
	}
	exh := &mon.Sub{
		Name: "all-functions-short-lists", Rule: fmt.Sprintf("all 37 names x every argument list of length 0 and 1 over the %d-value pool and of length 2 over a %d-value sub-pool x {unsafe, safe} manager x {direct call, through an expression with the arguments bound to variables} x 3 spellings (rotating); ", len(pool), len(small)) + rule,
		Exhaustive: true, DistinctByGen: true, Floor: 1000,
		Gen: func(emit func(string)) {
			r := cfg.Rng("c08-spell")
			for _, n := range c08Names {
				emitCall(emit, n, nil, r)
				for _, a := range pool {
					emitCall(emit, n, []Val{a}, r)
				}
				for _, a := range small {
					for _, b := range small {
						emitCall(emit, n, []Val{a, b}, r)
					}
				}
			}
		},
		Exec: c08Exec,
		Final: func(r *mon.SubReport) string {
			for _, n := range c08Names {
				if r.Tables["functions-with-checked-value"][strings.ToUpper(n)] == 0 && n != "If" && n != "Choose" {
					return "no defined value was ever compared for function " + n
				}
			}
			return ""
		},
	}
	rnd := &mon.Sub{
		Name: "all-functions-long-lists", Rule: "all 37 names x seeded argument lists of length 3..8 from the pool and random values (biased to each function's plausible argument types) x both managers x both call modes x random spelling; " + rule + "; distinct by hash",
		Floor: 1000,
		Gen: func(emit func(string)) {
			r := cfg.Rng("c08-random")
			nums := []Val{vInt(0), vInt(1), vInt(2), vInt(3), vInt(-1), vInt(4), vLong(2), vLong(7), vDouble(1.5), vFloat(2.5), vInt(12), vInt(28), vInt(1975), vInt(2024), vInt(59), vInt(999), vStr("3"), vBool(true), vNull()}
			for i := 0; i < cfg.N(400, 40000); i++ {
				for _, n := range c08Names {
					k := 3 + r.Intn(6)
					args := make([]Val, k)
					intlike := []Val{vInt(0), vInt(1), vInt(2), vInt(7), vInt(12), vInt(28), vInt(59), vInt(1975), vInt(2024), vLong(1), vLong(3), vLong(30), vLong(999), vLong(2000)}
					for j := range args {
						if (strings.EqualFold(n, "TimeSpan") || strings.EqualFold(n, "Date")) && r.Chance(4, 5) {
							args[j] = mon.Pick(r, intlike) // plausible components, Integer and Long mixed
							continue
						}
						switch r.Intn(4) {
						case 0:
							args[j] = mon.Pick(r, pool)
						case 1:
							args[j] = randomVal(r, 0)
						default:
							args[j] = mon.Pick(r, nums)
						}
					}
					emitCall(emit, n, args, r)
				}
			}
		},
		Exec: c08Exec,
		Final: func(r *mon.SubReport) string {
			for _, n := range []string{"IF", "CHOOSE", "MIN", "MAX", "SUM", "DATE", "TIMESPAN", "ARRAY"} {
				if r.Tables["functions-with-checked-value"][n] == 0 {
					return "no defined value was ever compared for function " + n
				}
			}
			return ""
		},
	}
	dst := &mon.Sub{
		Name: "dates-around-zone-transitions", Rule: "the process runs in " + c08Zone + " (embedded tz database): Date(y, m, d, h, mi, s) for y = 2015..2030, d within two days of the last Sundays of March and October (the switches to and from summer time), h = 0..4, mi in {0, 29, 30, 59}, plus 2 fixed mid-winter and mid-summer days, both managers, both call modes; the result must be the instant time.Date gives for these components in the local zone; " + rule,
		Exhaustive: true, DistinctByGen: true, Floor: 500,
		Gen: func(emit func(string)) {
			for y := 2015; y <= 2030; y++ {
				days := [][2]int{{1, 15}, {7, 15}}
				for _, m := range []time.Month{time.March, time.October} {
					for dd := -2; dd <= 2; dd++ {
						days = append(days, [2]int{int(m), lastSunday(y, m) + dd})
					}
				}
				for _, md := range days {
					for h := 0; h <= 4; h++ {
						for _, mi := range []int{0, 29, 30, 59} {
							emitCall(emit, "Date", []Val{vInt(y), vInt(md[0]), vInt(md[1]), vInt(h), vInt(mi), vInt(7)}, nil)
						}
					}
				}
			}
		},
		Exec: c08Exec,
	}
	hexs := func(s string) string { return fmt.Sprintf("%x", s) }
	bytesSub := &mon.Sub{
		Name: "contains-on-arbitrary-byte-strings", Rule: "Contains(text, part) for all ordered pairs of 24 strings that include invalid UTF-8 (lone 0xFF, 0xFE, 0xA4, 0xC3, a truncated sequence), U+FFFD itself, single non-ASCII characters and the empty string, direct call and through an expression with the strings bound to variables; the result must be strings.Contains of the two strings byte for byte",
		Exhaustive: true, DistinctByGen: true, Floor: 500,
		Gen: func(emit func(string)) {
			ss := []string{"", "a", "b", "ab", "a\xffb", "a\xfeb", "\xff", "\xfe", "a\uFFFDb", "\uFFFD", "price: 10 \xa4", "\xa4", "\xc3", "\xa9", "é", "caf\xc3", "café", "\xe2\x82", "€", "😀", "\xf0\x9f", "x\x00y", "\x00", "ш"}
			for _, a := range ss {
				for _, b := range ss {
					emit("direct\x00" + hexs(a) + "\x00" + hexs(b))
					emit("expr\x00" + hexs(a) + "\x00" + hexs(b))
				}
			}
		},
		Exec: func(c *mon.Case) {
			parts := strings.SplitN(c.Payload, "\x00", 3)
			unhex := func(h string) string { var b []byte; fmt.Sscanf(h, "%x", &b); return string(b) }
			text, part := unhex(parts[1]), unhex(parts[2])
			var res *variants.Variant
			var err error
			if parts[0] == "direct" {
				f := functions.NewDefaultFunctionCollection().FindByName("contains")
				if p := mon.Try(func() {
					res, err = f.Calculate([]*variants.Variant{variants.VariantFromString(text), variants.VariantFromString(part)}, manager("unsafe"))
				}); p != nil {
					c.FailPanic("function CONTAINS", p)
					return
				}
			} else {
				calc := calculator.NewExpressionCalculator()
				vars := variables.NewVariableCollection()
				vars.Add(variables.NewVariable("t", variants.VariantFromString(text)))
				vars.Add(variables.NewVariable("p", variants.VariantFromString(part)))
				if p := mon.Try(func() {
					if err = calc.SetExpression("Contains(t, p)"); err == nil {
						res, err = calc.EvaluateUsingVariables(vars)
					}
				}); p != nil {
					c.FailPanic("evaluating CONTAINS(...)", p)
					return
				}
			}
			if err != nil || res == nil || res.Type() != variants.Boolean {
				c.Failf("function CONTAINS fails on valid arguments", "Contains(%q, %q) -> %v, %v", text, part, res, err)
				return
			}
			if res.AsBoolean() != strings.Contains(text, part) {
				c.Failf("function CONTAINS does not compute what its name denotes", "%s call Contains(%q, %q) -> %v, expected %v", parts[0], text, part, res.AsBoolean(), strings.Contains(text, part))
				return
			}
			c.NonTrivial()
		},
	}
	clock := &mon.Sub{
		Name: "clock-functions-across-second-boundaries", Rule: "16 goroutines call Now() and Ticks() back to back (direct calls, type-unsafe manager) for 3.1 s (thorough: 30.1 s), i.e. across at least three (thirty) second boundaries: every Now() must lie between a clock reading taken just before the call and one taken just after it (1 ms of slack for clock steps), every Ticks() between the Unix seconds of those two readings; within a millisecond of a boundary each goroutine hammers one of the two functions only - so a value assembled from two separate clock readings, or rounded up to the next second, shows when a call straddles a boundary; a case is one call",
		Exhaustive: true, DistinctByGen: true, Floor: 16,
		Batch: 1,
		Gen: func(emit func(string)) {
			for i := 0; i < 16; i++ {
				emit("spin " + strconv.Itoa(i) + " " + strconv.Itoa(cfg.N(3100, 30100)))
			}
		},
		Exec: func(c *mon.Case) {
			fc := functions.NewDefaultFunctionCollection()
			now, ticks := fc.FindByName("now"), fc.FindByName("ticks")
			mgr := manager("unsafe")
			var shard, ms int
			fmt.Sscanf(c.Payload, "spin %d %d", &shard, &ms)
			start := time.Now()
			calls := 0
			checkNow := func() bool {
				before := time.Now()
				r, err := now.Calculate(nil, mgr)
				after := time.Now()
				if err != nil || r == nil || r.Type() != variants.DateTime || r.AsDateTime().Before(before.Add(-time.Millisecond)) || r.AsDateTime().After(after.Add(time.Millisecond)) {
					c.Failf("function NOW does not compute what its name denotes", "Now() -> %v (%v), called between %s and %s", snap(r), err, before.Format(time.RFC3339Nano), after.Format(time.RFC3339Nano))
					return false
				}
				return true
			}
			checkTicks := func() bool {
				before := time.Now()
				r, err := ticks.Calculate(nil, mgr)
				after := time.Now()
				if err != nil || r == nil || r.Type() != variants.Long || r.AsLong() < before.Unix() || r.AsLong() > after.Unix() {
					// other units are admissible (see the reference table); only a count of seconds is judged this tightly
					if r != nil && r.Type() == variants.Long && r.AsLong() > after.Unix()+5 {
						c.Count("ticks in another unit than seconds")
						return true
					}
					c.Failf("function TICKS does not compute what its name denotes", "Ticks() -> %v (%v), called between Unix seconds %d and %d (%s .. %s)", snap(r), err, before.Unix(), after.Unix(), before.Format(time.RFC3339Nano), after.Format(time.RFC3339Nano))
					return false
				}
				return true
			}
			for calls < 2000000000 && time.Since(start) < time.Duration(ms)*time.Millisecond {
				// within a millisecond of a second boundary every goroutine hammers one of the two functions only, as densely as it can
				if ns := time.Now().Nanosecond(); ns > 999000000 || ns < 1000000 {
					for k := 0; k < 256; k++ {
						if (shard%2 == 0 && !checkTicks()) || (shard%2 == 1 && !checkNow()) {
							return
						}
					}
					calls += 256
					continue
				}
				for k := 0; k < 32; k++ {
					if !checkNow() || !checkTicks() {
						return
					}
					calls += 2
				}
			}
			c.AddEvals(calls-1, calls-1)
			c.NonTrivial()
		},
	}
	return []*mon.Sub{exh, rnd, dst, bytesSub, clock}
}
