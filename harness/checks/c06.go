package checks

import (
	"fmt"
	"math"
	"strconv"
	"strings"
	"time"

	"github.com/pip-services3-gox/pip-services3-expressions-gox/variants"

	"verifharness/mon"
)

// C06 — variant operators implement the arithmetic of the first operand's type.

func init() { mon.Register("C06", buildC06) }

var c06Binary = []string{"Add", "Sub", "Mul", "Div", "Mod", "Pow", "And", "Or", "Xor", "Lsh", "Rsh", "Equal", "NotEqual", "More", "Less", "MoreEqual", "LessEqual", "In", "GetElement"}
var c06Unary = []string{"Not", "Negative"}

func callOp(ops variants.IVariantOperations, op string, a, b *variants.Variant) (*variants.Variant, error) {
	switch op {
	case "Add":
		return ops.Add(a, b)
	case "Sub":
		return ops.Sub(a, b)
	case "Mul":
		return ops.Mul(a, b)
	case "Div":
		return ops.Div(a, b)
	case "Mod":
		return ops.Mod(a, b)
	case "Pow":
		return ops.Pow(a, b)
	case "And":
		return ops.And(a, b)
	case "Or":
		return ops.Or(a, b)
	case "Xor":
		return ops.Xor(a, b)
	case "Lsh":
		return ops.Lsh(a, b)
	case "Rsh":
		return ops.Rsh(a, b)
	case "Equal":
		return ops.Equal(a, b)
	case "NotEqual":
		return ops.NotEqual(a, b)
	case "More":
		return ops.More(a, b)
	case "Less":
		return ops.Less(a, b)
	case "MoreEqual":
		return ops.MoreEqual(a, b)
	case "LessEqual":
		return ops.LessEqual(a, b)
	case "In":
		return ops.In(a, b)
	case "GetElement":
		return ops.GetElement(a, b)
	case "Not":
		return ops.Not(a)
	case "Negative":
		return ops.Negative(a)
	}
	panic("unknown operator " + op)
}

const (
	stValue = iota
	stError
	stUnspecified
)

func cmpResult(op string, lt, eq, gt bool) Val {
	switch op {
	case "Equal":
		return vBool(eq)
	case "NotEqual":
		return vBool(!eq)
	case "More":
		return vBool(gt)
	case "Less":
		return vBool(lt)
	case "MoreEqual":
		return vBool(gt || eq)
	case "LessEqual":
		return vBool(lt || eq)
	}
	panic(op)
}

func isCmp(op string) bool {
	switch op {
	case "Equal", "NotEqual", "More", "Less", "MoreEqual", "LessEqual":
		return true
	}
	return false
}

// hostOp is the host-arithmetic table: a and b have the same type (b already
// converted to a's type), op is one of the same-type binary operators.
func hostOp(op string, a, b Val) (Val, int) {
	ordered := op == "More" || op == "Less" || op == "MoreEqual" || op == "LessEqual"
	switch a.T {
	case "I":
		x, y := a.Int(), b.Int()
		switch op {
		case "Add":
			return vInt(x + y), stValue
		case "Sub":
			return vInt(x - y), stValue
		case "Mul":
			return vInt(x * y), stValue
		case "Div":
			if y == 0 {
				return Val{}, stError
			}
			return vInt(x / y), stValue
		case "Mod":
			if y == 0 {
				return Val{}, stError
			}
			return vInt(x % y), stValue
		case "And":
			return vInt(x & y), stValue
		case "Or":
			return vInt(x | y), stValue
		case "Xor":
			return vInt(x ^ y), stValue
		}
		if isCmp(op) {
			return cmpResult(op, x < y, x == y, x > y), stValue
		}
	case "L":
		x, y := a.Long(), b.Long()
		switch op {
		case "Add":
			return vLong(x + y), stValue
		case "Sub":
			return vLong(x - y), stValue
		case "Mul":
			return vLong(x * y), stValue
		case "Div":
			if y == 0 {
				return Val{}, stError
			}
			return vLong(x / y), stValue
		case "Mod":
			if y == 0 {
				return Val{}, stError
			}
			return vLong(x % y), stValue
		case "And":
			return vLong(x & y), stValue
		case "Or":
			return vLong(x | y), stValue
		case "Xor":
			return vLong(x ^ y), stValue
		}
		if isCmp(op) {
			return cmpResult(op, x < y, x == y, x > y), stValue
		}
	case "F":
		x, y := a.Float(), b.Float()
		switch op {
		case "Add":
			return vFloat(x + y), stValue
		case "Sub":
			return vFloat(x - y), stValue
		case "Mul":
			return vFloat(x * y), stValue
		case "Div":
			return vFloat(x / y), stValue
		}
		if isCmp(op) {
			return cmpResult(op, x < y, x == y, x > y), stValue
		}
	case "D":
		x, y := a.Double(), b.Double()
		switch op {
		case "Add":
			return vDouble(x + y), stValue
		case "Sub":
			return vDouble(x - y), stValue
		case "Mul":
			return vDouble(x * y), stValue
		case "Div":
			return vDouble(x / y), stValue
		}
		if isCmp(op) {
			return cmpResult(op, x < y, x == y, x > y), stValue
		}
	case "S":
		if op == "Add" {
			return vStr(a.V + b.V), stValue
		}
		if isCmp(op) {
			return cmpResult(op, a.V < b.V, a.V == b.V, a.V > b.V), stValue
		}
	case "B":
		x, y := a.Bool(), b.Bool()
		switch op {
		case "And":
			return vBool(x && y), stValue
		case "Or":
			return vBool(x || y), stValue
		case "Xor":
			return vBool(x != y), stValue
		case "Equal":
			return vBool(x == y), stValue
		case "NotEqual":
			return vBool(x != y), stValue
		}
	case "P":
		x, y := a.Span(), b.Span()
		switch op {
		case "Add":
			return vSpan(x + y), stValue
		case "Sub":
			return vSpan(x - y), stValue
		}
		if isCmp(op) {
			return cmpResult(op, x < y, x == y, x > y), stValue
		}
	case "T":
		x, y := a.Time(), b.Time()
		if op == "Sub" {
			return vSpan(x.Sub(y)), stValue
		}
		if isCmp(op) {
			return cmpResult(op, x.Before(y), x.Equal(y), x.After(y)), stValue
		}
	case "O", "A":
		if op == "Equal" || op == "NotEqual" {
			return Val{}, stUnspecified
		}
	}
	_ = ordered
	return Val{}, stError
}

func numericAsDouble(v Val) (float64, bool) {
	switch v.T {
	case "I", "L":
		return float64(v.Long()), true
	case "F":
		return float64(v.Float()), true
	case "D":
		return v.Double(), true
	}
	return 0, false
}

// sameFloat: bit-identical (so -0 and +0 differ), any NaN equals any NaN
func sameFloat(a, b float64) bool {
	return math.Float64bits(a) == math.Float64bits(b) || (a != a && b != b)
}

func plainIntText(t string) bool {
	if t != "" && (t[0] == '+' || t[0] == '-') {
		t = t[1:]
	}
	if t == "" {
		return false
	}
	for _, ch := range t {
		if ch < '0' || ch > '9' {
			return false
		}
	}
	return true
}

// c06Expect computes the expected outcome of op(a,b) under manager mgr.
// It returns the expected value, the status, and a note for unspecified zones.
func c06Expect(mgrName string, mgr variants.IVariantOperations, op string, a, b Val) (Val, int, string) {
	unary := op == "Not" || op == "Negative"
	if op == "Not" {
		switch a.T {
		case "N":
			return Val{}, stUnspecified, "NOT of Null"
		case "I":
			return vInt(^a.Int()), stValue, ""
		case "L":
			return vLong(^a.Long()), stValue, ""
		case "B":
			return vBool(!a.Bool()), stValue, ""
		}
		return Val{}, stError, ""
	}
	if op == "Negative" {
		switch a.T {
		case "N":
			return vNull(), stValue, ""
		case "I":
			return vInt(-a.Int()), stValue, ""
		case "L":
			return vLong(-a.Long()), stValue, ""
		case "F":
			return vFloat(-a.Float()), stValue, ""
		case "D":
			return vDouble(-a.Double()), stValue, ""
		}
		return Val{}, stError, ""
	}
	_ = unary
	if op == "Equal" || op == "NotEqual" {
		if a.T == "N" || b.T == "N" {
			return Val{}, stUnspecified, "equality with Null (only consistency of = and <> is asserted)"
		}
	} else if a.T == "N" || b.T == "N" {
		return vNull(), stValue, ""
	}
	conv := func(v Val, T string) (Val, bool) {
		var r *variants.Variant
		var err error
		if p := mon.Try(func() { r, err = mgr.Convert(v.Variant(), tagType[T]) }); p != nil || err != nil || r == nil {
			return Val{}, false
		}
		return snap(r), true
	}
	switch op {
	case "In":
		if a.T != "A" {
			return c06Expect(mgrName, mgr, "Equal", a, b)
		}
		found := false
		for _, e := range a.E {
			var r *variants.Variant
			var err error
			if p := mon.Try(func() { r, err = mgr.Equal(b.Variant(), e.Variant()) }); p != nil || err != nil {
				return Val{}, stUnspecified, "IN over an array with an element that cannot be compared with the probe"
			}
			if s := snap(r); s.T == "B" && s.Bool() {
				found = true
			}
		}
		return vBool(found), stValue, ""
	case "GetElement":
		bi, ok := conv(b, "I")
		if !ok {
			return Val{}, stError, ""
		}
		if bi.T != "I" {
			return Val{}, stUnspecified, "index conversion did not deliver an Integer (C07)"
		}
		idx := bi.Int()
		switch a.T {
		case "A":
			if idx < 0 || idx >= len(a.E) {
				return Val{}, stError, ""
			}
			return a.E[idx], stValue, ""
		case "S":
			rs := []rune(a.V)
			if idx < 0 || idx >= len(rs) {
				return Val{}, stError, ""
			}
			return vStr(string(rs[idx])), stValue, ""
		}
		return Val{}, stError, ""
	case "Lsh", "Rsh":
		bi, ok := conv(b, "I")
		if !ok {
			return Val{}, stError, ""
		}
		if a.T != "I" && a.T != "L" {
			return Val{}, stError, ""
		}
		n := bi.Int()
		if n < 0 {
			return Val{}, stError, ""
		}
		if n >= 64 {
			return Val{}, stUnspecified, "shift count >= operand width"
		}
		if a.T == "I" {
			if op == "Lsh" {
				return vInt(a.Int() << uint(n)), stValue, ""
			}
			return vInt(a.Int() >> uint(n)), stValue, ""
		}
		if op == "Lsh" {
			return vLong(a.Long() << uint(n)), stValue, ""
		}
		return vLong(a.Long() >> uint(n)), stValue, ""
	case "Pow":
		if _, ok := numericAsDouble(a); !ok {
			return Val{}, stError, ""
		}
		ad, ok1 := conv(a, "D")
		bd, ok2 := conv(b, "D")
		if !ok1 || !ok2 {
			return Val{}, stError, ""
		}
		if ad.T != "D" || bd.T != "D" {
			return Val{}, stUnspecified, "conversion to Double did not deliver a Double (C07)"
		}
		return vDouble(math.Pow(ad.Double(), bd.Double())), stValue, "pow"
	}
	bc, ok := conv(b, a.T)
	if b.T == "S" && (a.T == "I" || a.T == "L") && mgrName == "unsafe" {
		// a text that is a plain integer literal in range denotes that integer, whatever its length or padding
		if exact, err := strconv.ParseInt(b.V, 10, 64); err == nil && plainIntText(b.V) {
			if a.T == "I" {
				bc, ok = vInt(int(exact)), true
			} else {
				bc, ok = vLong(exact), true
			}
		}
	}
	if b.T == "S" && mgrName == "unsafe" {
		// texts with an unambiguous meaning in the host language denote that value, whatever route the manager takes:
		// a duration literal (time.ParseDuration) for a TimeSpan, a decimal number for a Float (the double it spells, rounded to single)
		if d, err := time.ParseDuration(b.V); err == nil && a.T == "P" {
			bc, ok = vSpan(d), true
		}
		if f, err := strconv.ParseFloat(b.V, 64); err == nil && a.T == "F" && reFloatLit.MatchString(b.V) {
			bc, ok = vFloat(float32(f)), true
		}
	}
	if !ok {
		return Val{}, stError, ""
	}
	if bc.T != a.T {
		return Val{}, stUnspecified, "operand conversion did not deliver the first operand's type (C07)"
	}
	v, st := hostOp(op, a, bc)
	note := ""
	if st == stUnspecified {
		note = "equality of Object/Array values"
	}
	return v, st, note
}

func c06Exec(c *mon.Case) {
	parts := strings.SplitN(c.Payload, "\x00", 3)
	mgrName, op := parts[0], parts[1]
	vs := decVals(parts[2])
	a := vs[0]
	b := vNull()
	if len(vs) > 1 {
		b = vs[1]
	}
	mgr := manager(mgrName)
	ra, rb := a.Variant(), b.Variant()
	var res *variants.Variant
	var err error
	desc := fmt.Sprintf("%s manager %s(%s, %s)", mgrName, op, a, b)
	if p := mon.Try(func() { res, err = callOp(mgr, op, ra, rb) }); p != nil {
		c.FailPanic(op, p)
		return
	}
	if (res == nil) == (err == nil) {
		c.Failf(op+" returns neither or both of result and error", "%s -> result=%v err=%v", desc, res, err)
		return
	}
	if !snap(ra).Same(a) || !snap(rb).Same(b) {
		c.Failf(op+" modified an operand", "%s: operands are now %s, %s", desc, snap(ra), snap(rb))
		return
	}
	want, st, note := c06Expect(mgrName, mgr, op, a, b)
	switch st {
	case stUnspecified:
		c.Unspecified(note)
		// = and <> must still be consistent
	case stError:
		if err == nil {
			c.Failf(op+" returns a value for an undefined operation", "%s -> %s, expected an error", desc, snap(res))
			return
		}
		c.Count("defined-error")
	case stValue:
		if err != nil {
			c.Failf(op+" fails on defined operands", "%s -> error %v, expected %s", desc, err, want)
			return
		}
		got := snap(res)
		ok := got.Same(want)
		if !ok && want.T == "D" && got.T == "D" && sameFloat(want.Double(), got.Double()) {
			ok = true
		}
		if !ok && want.T == "F" && got.T == "F" && sameFloat(float64(want.Float()), float64(got.Float())) {
			ok = true
		}
		if !ok && note == "pow" {
			// result type may be the first operand's type: the value must be the rounded power
			p := want.Double()
			switch got.T {
			case "F":
				ok = sameFloat(float64(float32(p)), float64(got.Float()))
			case "I", "L":
				if math.Abs(p) < 1<<62 && p == math.Trunc(p) {
					ok = got.Long() == int64(p)
				} else {
					c.Unspecified("integer-typed power that is not an exactly representable integer")
					ok = true
				}
			}
		}
		if !ok {
			c.Failf(op+" differs from the host arithmetic of the first operand's type", "%s -> %s, expected %s", desc, got, want)
			return
		}
		c.NonTrivial()
		c.Mark("operator-x-type", op+":"+a.T)
	}
	// membership when the list holds the very object that is probed for (as `x IN Array(1, 2, x)` does)
	if op == "In" && a.T == "A" {
		a2 := vArr(append(append([]Val{}, a.E...), b)...)
		elems := []*variants.Variant{}
		for _, e := range a.E {
			elems = append(elems, e.Variant())
		}
		probe := b.Variant()
		elems = append(elems, probe)
		var r2 *variants.Variant
		var e2 error
		if p := mon.Try(func() { r2, e2 = callOp(mgr, op, variants.VariantFromArray(elems), probe) }); p != nil {
			c.FailPanic(op+" (list holding the probed object)", p)
			return
		}
		want2, st2, _ := c06Expect(mgrName, mgr, op, a2, b)
		switch {
		case st2 == stValue && (e2 != nil || r2 == nil || !snap(r2).Same(want2)):
			c.Failf("In differs from list semantics when the list holds the probed object itself", "%s manager In(%s, same object as last element %s) -> %v %v, expected %s", mgrName, a2, b, r2, e2, want2)
			return
		case st2 == stError && e2 == nil:
			c.Failf("In returns a value for an undefined operation when the list holds the probed object itself", "%s manager In(%s, %s) -> %s", mgrName, a2, b, snap(r2))
			return
		case st2 == stValue:
			c.Count("in-with-shared-element-compared")
		}
	}
	// consistency of the comparison family on this ordered pair
	if op == "Equal" && a.T != "A" {
		rel := map[string]Val{}
		for _, o := range []string{"Equal", "NotEqual", "More", "Less", "MoreEqual", "LessEqual"} {
			var r *variants.Variant
			var e error
			if p := mon.Try(func() { r, e = callOp(mgr, o, a.Variant(), b.Variant()) }); p == nil && e == nil && r != nil {
				if s := snap(r); s.T == "B" {
					rel[o] = s
				}
			}
		}
		chk := func(name string, ok bool) {
			if !ok {
				c.Failf("comparison operators are mutually inconsistent: "+name, "%s manager, a=%s b=%s: %v", mgrName, a, b, rel)
			}
		}
		if eq, ok := rel["Equal"]; ok {
			if ne, ok := rel["NotEqual"]; ok {
				chk("a<>b iff not a=b", ne.Bool() == !eq.Bool())
			}
			if lt, ok := rel["Less"]; ok {
				if le, ok := rel["LessEqual"]; ok {
					chk("a<=b iff a<b or a=b", le.Bool() == (lt.Bool() || eq.Bool()))
				}
			}
			if gt, ok := rel["More"]; ok {
				if ge, ok := rel["MoreEqual"]; ok {
					chk("a>=b iff a>b or a=b", ge.Bool() == (gt.Bool() || eq.Bool()))
				}
			}
		}
		if a.T == b.T {
			if lt, ok := rel["Less"]; ok {
				var r *variants.Variant
				var e error
				if p := mon.Try(func() { r, e = mgr.More(b.Variant(), a.Variant()) }); p == nil && e == nil && r != nil {
					if s := snap(r); s.T == "B" {
						chk("a<b iff b>a", s.Bool() == lt.Bool())
					}
				}
			}
		}
	}
}

func buildC06(cfg *mon.Config) []*mon.Sub {
	rule := "x 19 binary and 2 unary operators x {type-unsafe, type-safe} manager; oracle: exactly one of result/error, no panic, operands untouched; Null propagates through everything except =, <>, NOT; the second operand is converted with the manager's own Convert (an error there must be the operator's error) and the result must equal the host arithmetic of the first operand's type written out per (operator, type) in the harness (wrap-around integer/long, IEEE float/double, string concatenation and byte order, boolean logic, time span and date-time arithmetic), '^' = math.Pow of the operands as doubles, IN/[] list semantics; integer/long division and modulo by zero, negative shift counts, out-of-range indexes and unsupported types must be errors; the six comparisons must be mutually consistent; non-trivial = a defined value was compared"
	emitPair := func(emit func(string), a, b Val) {
		j := encVals(a, b)
		for _, m := range []string{"unsafe", "safe"} {
			for _, op := range c06Binary {
				emit(m + "\x00" + op + "\x00" + j)
			}
		}
	}
	pool := valuePool()
	pairs := &mon.Sub{
		Name: "pool-all-ordered-pairs", Rule: fmt.Sprintf("all %d ordered pairs of the %d-value boundary pool ", len(pool)*len(pool), len(pool)) + rule,
		Exhaustive: true, DistinctByGen: true, Floor: 1000,
		Gen: func(emit func(string)) {
			for _, a := range pool {
				for _, m := range []string{"unsafe", "safe"} {
					for _, op := range c06Unary {
						emit(m + "\x00" + op + "\x00" + encVals(a))
					}
				}
				for _, b := range pool {
					emitPair(emit, a, b)
				}
			}
		},
		Exec: c06Exec,
		Final: func(r *mon.SubReport) string {
			for _, k := range []string{"Add:I", "Add:L", "Add:F", "Add:D", "Add:S", "Add:P", "Sub:T", "Div:I", "Mod:L", "Pow:I", "Pow:L", "Pow:F", "Pow:D", "And:B", "Xor:I", "Lsh:I", "Rsh:L", "More:S", "Less:T", "Equal:T", "In:A", "GetElement:A", "GetElement:S", "Not:B", "Negative:F"} {
				if r.Tables["operator-x-type"][k] == 0 {
					return "no defined value was ever compared for " + k
				}
			}
			return ""
		},
	}
	rnd := &mon.Sub{
		Name: "random-pairs", Rule: "seeded random pairs (one operand random, the other random or from the pool) " + rule + "; distinct by hash",
		Floor: 1000,
		Gen: func(emit func(string)) {
			r := cfg.Rng("c06-random")
			for i := 0; i < cfg.N(3000, 250000); i++ {
				a, b := randomVal(r, 0), randomVal(r, 0)
				if r.Chance(1, 6) { // big whole bases with small exponents of either sign
					a = vLong(int64(r.Next()>>uint(1+r.Intn(31))) * int64(1-2*r.Intn(2)))
					b = vInt(r.Intn(81) - 40)
					if r.Bool() {
						a = vInt(int(a.Long()))
					}
				} else if r.Chance(1, 3) {
					b = mon.Pick(r, pool)
				} else if r.Chance(1, 3) {
					a = mon.Pick(r, pool)
				}
				emitPair(emit, a, b)
				emit("unsafe\x00" + mon.Pick(r, c06Unary) + "\x00" + encVals(a))
			}
		},
		Exec: c06Exec,
	}
	return []*mon.Sub{pairs, rnd}
}
