package checks

import (
	"fmt"
	"strconv"
	"strings"

	"github.com/pip-services3-gox/pip-services3-expressions-gox/calculator"
	"github.com/pip-services3-gox/pip-services3-expressions-gox/calculator/functions"
	"github.com/pip-services3-gox/pip-services3-expressions-gox/calculator/variables"
	"github.com/pip-services3-gox/pip-services3-expressions-gox/variants"

	"verifharness/model"
	"verifharness/mon"
)

// C01, operand order made observable: leaves whose value depends on WHEN they
// are read.  Variable "a" is an ordinary variable that the functions Bump() and
// Put(k) replace (SetValue with a fresh variant, never an in-place change);
// variable "n" is an IVariable whose Value() counts its own reads; Tick()
// counts its own calls.  The reference walks the tree in written order (left
// operand, right operand, node; arguments left to right) with the same effects.

type fxWorld struct {
	a     int
	reads int
	ticks int
}

type fxCounterVar struct{ w *fxWorld }

func (v *fxCounterVar) Name() string { return "n" }
func (v *fxCounterVar) Value() *variants.Variant {
	v.w.reads++
	return variants.VariantFromInteger(v.w.reads * 100)
}
func (v *fxCounterVar) SetValue(*variants.Variant) {}

func fxRef(n *model.Node, w *fxWorld) int {
	switch n.Op {
	case "const":
		i, _ := strconv.Atoi(n.Lit)
		return i
	case "var":
		if strings.EqualFold(n.Lit, "a") {
			return w.a
		}
		w.reads++
		return w.reads * 100
	case "call":
		args := make([]int, len(n.Kids))
		for i, k := range n.Kids {
			args[i] = fxRef(k, w)
		}
		switch strings.ToUpper(n.Lit) {
		case "BUMP":
			w.a++
			return w.a
		case "PUT":
			w.a = args[0]
			return 1
		case "TICK":
			w.ticks++
			return w.ticks * 7
		case "PAIR":
			return args[0]*3 - args[1]
		}
		panic("fxRef: function " + n.Lit)
	case "neg":
		return -fxRef(n.Kids[0], w)
	}
	l := fxRef(n.Kids[0], w)
	r := fxRef(n.Kids[1], w)
	switch n.Op {
	case "+":
		return l + r
	case "-":
		return l - r
	case "*":
		return l * r
	}
	panic("fxRef: operator " + n.Op)
}

func fxGen(r *mon.Rng, depth int) *model.Node {
	if depth <= 0 || r.Chance(1, 5) {
		switch r.Intn(8) {
		case 0, 1, 2:
			return leafVar(mon.Pick(r, []string{"a", "A"}))
		case 3:
			return leafVar(mon.Pick(r, []string{"n", "N"}))
		case 4:
			return &model.Node{Op: "call", Lit: mon.Pick(r, []string{"Bump", "BUMP", "bump"})}
		case 5:
			return &model.Node{Op: "call", Lit: "Tick"}
		case 6:
			return &model.Node{Op: "call", Lit: "Put", Kids: []*model.Node{leafConst(strconv.Itoa(2 + r.Intn(30)))}}
		}
		return leafConst(strconv.Itoa(1 + r.Intn(9)))
	}
	switch r.Intn(10) {
	case 0:
		return &model.Node{Op: "call", Lit: "Pair", Kids: []*model.Node{fxGen(r, depth-1), fxGen(r, depth-1)}}
	case 1:
		return &model.Node{Op: "call", Lit: "Put", Kids: []*model.Node{fxGen(r, depth-1)}}
	case 2:
		return unNode("neg", fxGen(r, depth-1))
	}
	return binNode(mon.Pick(r, []string{"+", "+", "-", "-", "*"}), fxGen(r, depth-1), fxGen(r, depth-1))
}

func fxCountA(n *model.Node) (reads, writes int) {
	if n.Op == "var" && strings.EqualFold(n.Lit, "a") {
		reads++
	}
	if n.Op == "call" && (strings.EqualFold(n.Lit, "Bump") || strings.EqualFold(n.Lit, "Put")) {
		writes++
	}
	for _, k := range n.Kids {
		r, w := fxCountA(k)
		reads, writes = reads+r, writes+w
	}
	return
}

func c01FxExec(c *mon.Case) {
	parts := strings.SplitN(c.Payload, "\x00", 3)
	seed, _ := strconv.ParseUint(parts[1], 10, 64)
	tree := decNode(parts[2])
	ref := &fxWorld{a: 5}
	want := fxRef(tree, ref)
	for i, src := range printings(tree, seed) {
		w := &fxWorld{a: 5}
		calc := calculator.NewExpressionCalculator()
		vars := variables.NewVariableCollection()
		av := variables.NewVariable("a", variants.VariantFromInteger(5))
		vars.Add(av)
		vars.Add(&fxCounterVar{w: w})
		fc := functions.NewDefaultFunctionCollection()
		// every function keeps the parameter list it was handed (the list is the function's from then on) with what it held
		type keptList struct {
			p    []*variants.Variant
			held string
		}
		var kept []keptList
		keep := func(p []*variants.Variant) {
			var b strings.Builder
			for _, x := range p {
				b.WriteString(snap(x).String() + " ")
			}
			kept = append(kept, keptList{p, b.String()})
		}
		intArg := func(p []*variants.Variant, i int) int { return p[i].AsInteger() }
		fc.Add(functions.NewDelegatedFunction("Bump", func(p []*variants.Variant, ops variants.IVariantOperations) (*variants.Variant, error) {
			w.a = av.Value().AsInteger() + 1
			av.SetValue(variants.VariantFromInteger(w.a))
			return variants.VariantFromInteger(w.a), nil
		}))
		fc.Add(functions.NewDelegatedFunction("Put", func(p []*variants.Variant, ops variants.IVariantOperations) (*variants.Variant, error) {
			keep(p)
			w.a = intArg(p, 0)
			av.SetValue(variants.VariantFromInteger(w.a))
			return variants.VariantFromInteger(1), nil
		}))
		fc.Add(functions.NewDelegatedFunction("Tick", func(p []*variants.Variant, ops variants.IVariantOperations) (*variants.Variant, error) {
			w.ticks++
			return variants.VariantFromInteger(w.ticks * 7), nil
		}))
		fc.Add(functions.NewDelegatedFunction("Pair", func(p []*variants.Variant, ops variants.IVariantOperations) (*variants.Variant, error) {
			keep(p)
			return variants.VariantFromInteger(intArg(p, 0)*3 - intArg(p, 1)), nil
		}))
		var setErr, evErr error
		var res *variants.Variant
		if p := mon.Try(func() { setErr = calc.SetExpression(src) }); p != nil {
			c.FailPanic("SetExpression", p)
			return
		}
		if setErr != nil {
			c.Failf("a well-formed expression is rejected", "style=%s source=%q: %v", printStyles[i], src, setErr)
			return
		}
		if p := mon.Try(func() { res, evErr = calc.EvaluateUsingVariablesAndFunctions(vars, fc) }); p != nil {
			c.FailPanic("Evaluate", p)
			return
		}
		if evErr != nil || res == nil {
			c.Failf("evaluation with time-dependent leaves fails", "style=%s source=%q: result=%v error=%v", printStyles[i], src, res, evErr)
			return
		}
		for _, k := range kept {
			var b strings.Builder
			for _, x := range k.p {
				b.WriteString(snap(x).String() + " ")
			}
			if b.String() != k.held {
				c.Failf("a parameter list handed to a function is rewritten later in the evaluation", "style=%s source=%q: a function received the arguments [%s]; after the evaluation the list it was handed holds [%s]", printStyles[i], src, k.held, b.String())
				return
			}
		}
		if res.Type() != variants.Integer || res.AsInteger() != want || w.a != ref.a || w.reads != ref.reads || w.ticks != ref.ticks {
			c.Failf("leaves are not read, or functions not called, in written order", "style=%s source=%q (a starts at 5; Bump() adds 1 to a and returns it; Put(k) sets a and returns 1; n counts its reads x100; Tick() counts its calls x7; Pair(x,y)=3x-y)\nwritten-order value %d with a=%d, %d reads of n, %d ticks\ncalculator: %s with a=%d, %d reads of n, %d ticks",
				printStyles[i], src, want, ref.a, ref.reads, ref.ticks, snap(res), w.a, w.reads, w.ticks)
			return
		}
	}
	c.AddEvals(len(printStyles)-1, 0)
	reads, writes := fxCountA(tree)
	if reads >= 2 && writes >= 1 {
		c.NonTrivial()
		c.Count("trees-reading-a-around-a-write")
	}
	if ref.reads >= 2 {
		c.Count("trees-reading-the-counting-variable-twice-or-more")
	}
}

func c01FxSub(cfg *mon.Config) *mon.Sub {
	return &mon.Sub{
		Name:  "time-dependent-leaves-in-written-order",
		Rule:  "seeded trees over + - * unary minus and calls whose leaves depend on when they are read: variable a (starts at 5) is replaced by the functions Bump() (a+1, returns it) and Put(k) (sets a, returns 1) through SetValue with a fresh variant; variable n is an IVariable that counts its own reads; Tick() counts its calls; Pair(x,y)=3x-y.  Each tree is printed four ways and evaluated with these variables and functions; the result, the final a and the numbers of reads and calls must equal a walk of the tree in written order (left operand, right operand, node; arguments left to right), and every parameter list a function was handed must still hold its arguments when the evaluation is over.  non-trivial = a is read at least twice and written at least once in the tree",
		Floor: 300,
		Gen: func(emit func(string)) {
			r := cfg.Rng("c01-fx")
			for i := 0; i < cfg.N(3000, 60000); i++ {
				t := fxGen(r, 1+r.Intn(cfg.N(4, 5)))
				emit("fx\x00" + strconv.FormatUint(r.Next()%1000000, 10) + "\x00" + encNode(t))
			}
		},
		Exec: c01FxExec,
		Sample: func(p string) any {
			parts := strings.SplitN(p, "\x00", 3)
			seed, _ := strconv.ParseUint(parts[1], 10, 64)
			return map[string]any{"printings": printings(decNode(parts[2]), seed)}
		},
		Final: func(r *mon.SubReport) string {
			if r.Counters["trees-reading-the-counting-variable-twice-or-more"] < 50 {
				return fmt.Sprintf("only %d trees read the counting variable twice", r.Counters["trees-reading-the-counting-variable-twice-or-more"])
			}
			return ""
		},
	}
}
