package checks

import (
	"fmt"
	"strings"

	"github.com/pip-services3-gox/pip-services3-expressions-gox/tokenizers"

	"verifharness/model"
	"verifharness/mon"
)

// Relation between the option-free token stream B and the stream O produced
// under an option set (C15), optionally with positions (C12).

// quote characters handled by the quote state of each tokenizer configuration
func quoteChars(kind string) string {
	switch kind {
	case "csv":
		return "\""
	case "csvq":
		return "'"
	default:
		return "'\""
	}
}

// refDecode is the reference decoding of a token read by a quote state.
func refDecode(kind, v string) string {
	rs := []rune(v)
	if len(rs) < 2 || rs[0] != rs[len(rs)-1] {
		return v
	}
	inner := string(rs[1 : len(rs)-1])
	q := string(rs[0])
	switch kind {
	case "generic", "genericcpp", "mustache":
		return inner
	}
	return strings.ReplaceAll(inner, q+q, q)
}

type tokGroup struct {
	toks    []tok // one token, or the members of a whitespace run of which exactly one is kept
	pickOne bool
}

// expectedPositions fills Line/Col of the option-free stream from the offsets of
// its tokens and the independent line/column model.
func expectedPositions(input string, base []tok) []tok {
	rs := []rune(input)
	lines, cols := model.LCTable(rs)
	out := make([]tok, len(base))
	off := 0
	for i, t := range base {
		out[i] = t
		n := len([]rune(t.Value))
		if t.Type == tokenizers.Eof {
			out[i].Line, out[i].Col = lines[len(rs)], cols[len(rs)]+1
		} else if off < len(rs) {
			out[i].Line, out[i].Col = lines[off+1], cols[off+1]
		}
		off += n
	}
	return out
}

func expectedGroups(kind string, base []tok, mask int) []tokGroup {
	var groups []tokGroup
	qc := quoteChars(kind)
	for _, t := range base {
		switch t.Type {
		case tokenizers.Unknown:
			if mask&optSkipUnknown != 0 {
				continue
			}
		case tokenizers.Comment:
			if mask&optSkipComments != 0 {
				continue
			}
		case tokenizers.Eof:
			if mask&optSkipEof != 0 {
				continue
			}
		}
		if mask&optDecodeStrings != 0 && t.Type != tokenizers.Special && t.Value != "" && strings.ContainsRune(qc, []rune(t.Value)[0]) &&
			(t.Type == tokenizers.Quoted || t.Type == tokenizers.Word) {
			t.Value = refDecode(kind, t.Value)
		}
		if t.Type == tokenizers.Whitespace {
			if mask&optMergeWhitespaces != 0 {
				t.Value = " "
			}
			if mask&optSkipWhitespaces != 0 && len(groups) > 0 && groups[len(groups)-1].pickOne {
				groups[len(groups)-1].toks = append(groups[len(groups)-1].toks, t)
				continue
			}
			groups = append(groups, tokGroup{toks: []tok{t}, pickOne: mask&optSkipWhitespaces != 0})
			continue
		}
		if mask&optUnifyNumbers != 0 && (t.Type == tokenizers.Integer || t.Type == tokenizers.Float || t.Type == tokenizers.HexDecimal) {
			t.Type = tokenizers.Number
		}
		groups = append(groups, tokGroup{toks: []tok{t}})
	}
	return groups
}

// matchGroups compares an option run with the expected groups.
func matchGroups(groups []tokGroup, got []tok, withPos bool) (string, string) {
	if len(got) != len(groups) {
		// classify
		return "token stream under options is not the option-free stream with whole tokens removed or rewritten",
			fmt.Sprintf("expected %d tokens, got %d", len(groups), len(got))
	}
	for i, g := range groups {
		o := got[i]
		okTV, okPos := false, false
		for _, e := range g.toks {
			if e.Type == o.Type && e.Value == o.Value {
				okTV = true
				if e.Line == o.Line && e.Col == o.Col {
					okPos = true
				}
			}
		}
		if !okTV {
			return "token stream under options is not the option-free stream with whole tokens removed or rewritten",
				fmt.Sprintf("token #%d is %s, expected %s", i, o, toksString(g.toks))
		}
		if withPos && !okPos {
			kind := "token position differs from the position of its first character"
			if o.Type == tokenizers.Eof {
				kind = "end-of-input token is not one column past the last character"
			}
			return kind, fmt.Sprintf("token #%d is %s, expected %s", i, o, toksString(g.toks))
		}
	}
	return "", ""
}

// runOptions tokenizes input with the given tokenizer kind under mask.
func runOptions(kind, input string, mask int) ([]tok, *mon.Panic) {
	var out []tok
	p := mon.Try(func() {
		t := newTokenizer(kind)
		setOptions(t, mask)
		out = tokenizeAll(t, input)
	})
	return out, p
}
