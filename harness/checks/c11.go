package checks

import (
	"fmt"
	"strconv"
	"strings"
	"sync"

	rio "github.com/pip-services3-gox/pip-services3-expressions-gox/io"

	"verifharness/model"
	"verifharness/mon"
)

// C11 — the string scanner is a faithful cursor with position-only line/column.

func init() { mon.Register("C11", buildC11) }

// cursor model: p in [-1, len]; p is the index of the last slot read, len is
// the end-of-input slot.
type cursorModel struct {
	content []rune
	lines   []int
	cols    []int
	p       int
}

func newCursorModel(content []rune) *cursorModel {
	l, c := model.LCTable(content)
	return &cursorModel{content: content, lines: l, cols: c, p: -1}
}

func (m *cursorModel) read() rune {
	n := len(m.content)
	if m.p < n {
		m.p++
	}
	if m.p < n {
		return m.content[m.p]
	}
	return -1
}

func (m *cursorModel) unread() {
	if m.p > -1 {
		m.p--
	}
}

func (m *cursorModel) peek() rune {
	if m.p+1 < len(m.content) {
		return m.content[m.p+1]
	}
	return -1
}

// coordinates of the cursor: those after a forward scan of every character up
// to and including slot p (the end-of-input slot adds nothing).
func (m *cursorModel) lc() (int, int) {
	k := m.p + 1
	if k > len(m.content) {
		k = len(m.content)
	}
	return m.lines[k], m.cols[k]
}

const c11Ops = "rumMR" // read, unread, unreadMany(2), unreadMany(3), reset

// c11Run drives one scanner with k initial reads followed by ops and compares
// it with the cursor model after every single operation.
func c11Run(c *mon.Case, content string, k int, ops string) bool {
	rs := []rune(content)
	s := rio.NewStringScanner(content)
	m := newCursorModel(rs)
	check := func(step int, what string) bool {
		wl, wc := m.lc()
		if s.Line() != wl || s.Column() != wc {
			c.Failf("line/column differ from a forward scan to the cursor position ("+what+")",
				"content=%q reads=%d ops=%q step=%d: model position=%d expects line=%d column=%d, scanner reports line=%d column=%d",
				content, k, ops, step, m.p, wl, wc, s.Line(), s.Column())
			return false
		}
		if got, want := s.Peek(), m.peek(); got != want {
			c.Failf("peek differs from the next character", "content=%q reads=%d ops=%q step=%d: peek=%d want %d", content, k, ops, step, got, want)
			return false
		}
		// peek must not move the cursor
		if s.Line() != wl || s.Column() != wc {
			c.Failf("peek moved the cursor", "content=%q ops=%q step=%d", content, ops, step)
			return false
		}
		if m.p+1 < len(rs) {
			pl, pc := m.lines[m.p+2], m.cols[m.p+2]
			if s.PeekLine() != pl || s.PeekColumn() != pc {
				c.Failf("peeked line/column differ from those reported after the next read",
					"content=%q reads=%d ops=%q step=%d position=%d: peekLine=%d peekColumn=%d, after the next read line=%d column=%d",
					content, k, ops, step, m.p, s.PeekLine(), s.PeekColumn(), pl, pc)
				return false
			}
		} else {
			// next slot is end-of-input: the line is unchanged; the column is
			// either the current one or one past it (don't-care, see DESIGN C11).
			if s.PeekLine() != wl || (s.PeekColumn() != wc && s.PeekColumn() != wc+1) {
				c.Failf("peeked line/column at end of input",
					"content=%q reads=%d ops=%q step=%d: peekLine=%d peekColumn=%d at line=%d column=%d", content, k, ops, step, s.PeekLine(), s.PeekColumn(), wl, wc)
				return false
			}
		}
		return true
	}
	if !check(-1, "initial") {
		return false
	}
	for i := 0; i < k; i++ {
		got, want := s.Read(), m.read()
		if got != want {
			c.Failf("read returned the wrong character", "content=%q read #%d returned %d want %d", content, i, got, want)
			return false
		}
		if !check(i, "after read") {
			return false
		}
	}
	for i := 0; i < len(ops); i++ {
		what := ""
		switch ops[i] {
		case 'r':
			got, want := s.Read(), m.read()
			if got != want {
				c.Failf("read returned the wrong character", "content=%q reads=%d ops=%q step=%d: returned %d want %d", content, k, ops, i, got, want)
				return false
			}
			what = "after read"
		case 'u':
			atStart, atEOF := m.p == -1, m.p == len(rs)
			isEol := m.p >= 0 && m.p < len(rs) && (rs[m.p] == '\n' || rs[m.p] == '\r')
			s.Unread()
			m.unread()
			what = "after unread"
			if atStart {
				what = "after unread at the start"
			} else if atEOF {
				what = "after unread from the end-of-input slot"
			} else if isEol {
				what = "after unread of a line-break character"
			}
		case 'm':
			s.UnreadMany(2)
			m.unread()
			m.unread()
			what = "after multi-unread"
		case 'M':
			s.UnreadMany(3)
			m.unread()
			m.unread()
			m.unread()
			what = "after multi-unread"
		case 'I', 'J', 'K', 'L', 'N', 'O', 'P', 'Q':
			n := 9 + int(ops[i]-'I')
			s.UnreadMany(n)
			for k := 0; k < n; k++ {
				m.unread()
			}
			what = "after multi-unread of 9..17 characters"
		case 'A', 'B', 'C', 'D', 'E', 'F', 'G', 'H':
			n := 33 + int(ops[i]-'A')
			s.UnreadMany(n)
			for k := 0; k < n; k++ {
				m.unread()
			}
			what = "after multi-unread of more than 32 characters"
		case 'R':
			s.Reset()
			m.p = -1
			what = "after reset"
		}
		if !check(i, what) {
			return false
		}
	}
	return true
}

// c11BigContent builds "gen:<length>:<variant>": lines of 0..19 letters (so blank lines are frequent) ended by
// LF, CR, CRLF, LFCR, LF LF or CR CR in rotation, cut at exactly <length> characters.
func c11BigContent(spec string) string {
	var n, variant int
	fmt.Sscanf(spec, "gen:%d:%d", &n, &variant)
	if variant >= 100 && variant < 200 { // one line of n-40 letters, its line break (LF, CR, CRLF, LFCR by variant), then short lines
		brk := []string{"\n", "\r", "\r\n", "\n\r"}[variant%4]
		return strings.Repeat("w", n-40) + brk + strings.Repeat("ab\n", 20)[:40-len(brk)]
	}
	if variant >= 200 { // ASCII up to a few characters before 65 536 bytes, then 2-, 3- and 4-byte characters across the boundary
		return strings.Repeat("a", 65527+variant-200) + "\u20ac\U0001F600\u00e9\u20ac\u0448\U0001F600" + strings.Repeat("b\u20ac", 20)
	}
	pats := []string{"\n", "\r", "\r\n", "\n\r", "\n\n", "\r\r"}
	var b strings.Builder
	b.Grow(n + 32)
	x := uint32(variant*2654435761 + 12345)
	for b.Len() < n { // line lengths and break styles in a scrambled order, so that every style follows every other
		x = x*1664525 + 1013904223
		b.WriteString("abcdefghijklmnopqrstuvwxyz"[:(x>>8)%20])
		b.WriteString(pats[(x>>16)%uint32(len(pats))])
	}
	return b.String()[:n]
}

func c11Payload(content string, k int, ops string) string {
	return content + "\x00" + strconv.Itoa(k) + "\x00" + ops
}

func enumOps(depth int, f func(ops string)) {
	buf := make([]byte, depth)
	var rec func(i int)
	rec = func(i int) {
		if i == depth {
			f(string(buf))
			return
		}
		for j := 0; j < len(c11Ops); j++ {
			buf[i] = c11Ops[j]
			rec(i + 1)
		}
	}
	rec(0)
}

func c11Exec(depth int) func(c *mon.Case) {
	return func(c *mon.Case) {
		parts := strings.Split(c.Payload, "\x00")
		content := parts[0]
		if strings.HasPrefix(content, "hex:") { // contents that are not valid UTF-8 travel hex-encoded
			var b []byte
			fmt.Sscanf(content[4:], "%x", &b)
			content = string(b)
		}
		if strings.HasPrefix(content, "gen:") { // big contents are generated from their parameters
			content = c11BigContent(content)
		}
		k, _ := strconv.Atoi(parts[1])
		if len(parts) > 2 && parts[2] != "*" {
			if c11Run(c, content, k, parts[2]) {
				c.NonTrivial()
			}
			return
		}
		// family: every op sequence of the given depth
		n, bad := 0, 0
		enumOps(depth, func(ops string) {
			n++
			if bad >= 3 {
				return
			}
			c.SetPayload(c11Payload(content, k, ops))
			if !c11Run(c, content, k, ops) {
				bad++
			}
		})
		c.AddEvals(n-1, n)
	}
}

// ---- H2: the same invariant observed inside the scanner during real tokenizer work

var c11hook struct {
	once                                                                          sync.Once
	reads, readsAtEOF, unreads, unreadAtStart, unreadFromEOF, unreadOfEol, resets counter
	tables                                                                        sync.Map
	tablesN                                                                       counter
}

type scannerInvariant struct{ msg string }

func (e scannerInvariant) Error() string { return e.msg }

type lcEntry struct {
	lines, cols []int
	lastPos     int
}

func installScannerMonitor() {
	rio.VerifScannerHook = func(op int, content []rune, position, line, column int) {
		n := len(content)
		if position < -1 || position > n {
			panic(scannerInvariant{fmt.Sprintf("cursor left the content: position=%d, valid range is -1..%d", position, n)})
		}
		var key *rune
		if n > 0 {
			key = &content[0]
		}
		var e *lcEntry
		if v, ok := c11hook.tables.Load(key); ok && n > 0 {
			e = v.(*lcEntry)
		} else {
			l, c := model.LCTable(content)
			e = &lcEntry{lines: l, cols: c, lastPos: -1}
			if n > 0 {
				if c11hook.tablesN.get() > 8192 {
					c11hook.tables.Range(func(k, _ any) bool { c11hook.tables.Delete(k); return true })
					c11hook.tablesN.v = 0
				}
				c11hook.tables.Store(key, e)
				c11hook.tablesN.add(1)
			}
		}
		k := position + 1
		if k > n {
			k = n
		}
		switch op {
		case rio.VerifOpRead:
			c11hook.reads.add(1)
			if position == n {
				c11hook.readsAtEOF.add(1)
			}
		case rio.VerifOpUnread:
			c11hook.unreads.add(1)
			if position == -1 {
				c11hook.unreadAtStart.add(1)
			}
			if position == n-1 {
				c11hook.unreadFromEOF.add(1)
			}
			if position+1 < n && position+1 >= 0 && (content[position+1] == '\n' || content[position+1] == '\r') {
				c11hook.unreadOfEol.add(1)
			}
		case rio.VerifOpReset:
			c11hook.resets.add(1)
		}
		if line != e.lines[k] || column != e.cols[k] {
			shown := content
			if len(shown) > 200 {
				shown = shown[:200]
			}
			panic(scannerInvariant{fmt.Sprintf("the scanner's line/column differ from a forward scan to its position (hook H2)\nafter op %d at position %d it reports line=%d column=%d, a forward scan gives line=%d column=%d; content (first 200 characters) %q",
				op, position, line, column, e.lines[k], e.cols[k], string(shown))})
		}
	}
}

func buildC11(cfg *mon.Config) []*mon.Sub {
	alpha := []string{"x", "\n", "\r"}
	maxLen := cfg.N(4, 6)
	depth := cfg.N(5, 6)
	exh := &mon.Sub{
		Name:          "cursor-model-exhaustive",
		Rule:          fmt.Sprintf("every content of length <= %d over {x, LF, CR} x every number k of initial reads in 0..len+1 x every sequence of %d operations over {read, unread, unreadMany(2), unreadMany(3), reset}; model compared (read value, peek, line/column, peeked line/column) after every operation; a case is one (content, k, sequence), all distinct by construction", maxLen, depth),
		Exhaustive:    true,
		DistinctByGen: true,
		Floor:         100,
		Gen: func(emit func(string)) {
			enumStrings(alpha, maxLen, func(parts []string) {
				content := joinParts(parts)
				for k := 0; k <= len(parts)+1; k++ {
					emit(c11Payload(content, k, "*"))
				}
			})
		},
		Exec: c11Exec(depth),
	}
	rnd := &mon.Sub{
		Name:  "cursor-model-random",
		Rule:  "seeded random contents up to 850 characters (ASCII, Latin-1, BMP, astral, U+2028/2029/0085, VT, FF; LF, CR, CRLF, LFCR breaks) x random sequences of up to 400 operations; non-trivial = the run completed against the model",
		Floor: 100,
		Gen: func(emit func(string)) {
			r := cfg.Rng("c11-random")
			chars := []string{"a", "b", " ", "é", "ш", "€", "😀", "\t", "\u2028", "\u2029", "\u0085", "\v", "\f", "\u010a", "\u010d", "\u200d", "\u060d", "\U0001f60d", "\U0001040a"}
			breaks := []string{"\n", "\r", "\r\n", "\n\r", "\n\n", "\r\r"}
			for i := 0; i < cfg.N(3000, 200000); i++ {
				var b strings.Builder
				n := r.Intn(300)
				if r.Chance(1, 2) {
					n = r.Intn(12)
				} else if r.Chance(1, 3) {
					n = 250 + r.Intn(600) // beyond any small internal block size
				}
				for j := 0; j < n; j++ {
					if r.Chance(1, 4) {
						b.WriteString(mon.Pick(r, breaks))
					} else {
						b.WriteString(mon.Pick(r, chars))
					}
				}
				content := b.String()
				nr := len([]rune(content))
				k := r.Intn(nr + 3)
				ops := make([]byte, r.Intn(400))
				for j := range ops {
					switch x := r.Intn(20); {
					case x < 8:
						ops[j] = 'r'
					case x < 14:
						ops[j] = 'u'
					case x < 16:
						ops[j] = 'm'
					case x < 18:
						ops[j] = 'M'
					case x < 19:
						ops[j] = 'R'
					default:
						ops[j] = 'r'
					}
					if r.Chance(1, 25) {
						ops[j] = byte('A' + r.Intn(8))
					}
				}
				emit(c11Payload(content, k, string(ops)))
			}
		},
		Exec: c11Exec(0),
	}
	hooked := &mon.Sub{
		Name:  "scanner-invariant-under-tokenizers",
		Rule:  "H2 hook: every Read/Unread/Reset the six tokenizer configurations perform on real inputs (exhaustive strings over the 24-character state-selecting alphabet, all 128 option sets on a sample) is checked inside the scanner: cursor within -1..len and line/column equal to a forward scan; a case is one (tokenizer, options, input); non-trivial = the run performed at least one unread",
		Floor: 100,
		Gen: func(emit func(string)) {
			installScannerMonitor()
			installLoopMonitor()
			maxL := cfg.N(3, 4)
			enumStrings(c04Alphabet, maxL, func(parts []string) {
				s := joinParts(parts)
				for _, k := range allTokenizers {
					emit(k + "\x00" + "0" + "\x00" + s)
				}
			})
			r := cfg.Rng("c11-hooked")
			for i := 0; i < cfg.N(4000, 100000); i++ {
				s := randomTokenizerInput(r, 60)
				emit(mon.Pick(r, allTokenizers) + "\x00" + strconv.Itoa(r.Intn(128)) + "\x00" + s)
			}
		},
		Exec: func(c *mon.Case) {
			parts := strings.SplitN(c.Payload, "\x00", 3)
			mask, _ := strconv.Atoi(parts[1])
			before := c11hook.unreads.get()
			p := mon.Try(func() {
				t := newTokenizer(parts[0])
				setOptions(t, mask)
				tokenizeAll(t, parts[2])
			})
			if p != nil {
				if inv, ok := p.Val.(scannerInvariant); ok {
					c.Failf("scanner invariant broken during tokenization", "tokenizer=%s options=%s input=%q: %s", parts[0], optNames(mask), parts[2], inv.msg)
				}
				// other panics and no-progress loops belong to C03/C15, not to the scanner
				c.Count("other-panic-ignored-here")
				return
			}
			if c11hook.unreads.get() > before {
				c.NonTrivial()
			}
		},
		Final: func(r *mon.SubReport) string {
			h := &c11hook
			ops := map[string]int64{"read": h.reads.get(), "read-at-eof": h.readsAtEOF.get(), "unread": h.unreads.get(),
				"unread-at-start": h.unreadAtStart.get(), "unread-from-eof-slot": h.unreadFromEOF.get(), "unread-of-line-break": h.unreadOfEol.get(), "reset": h.resets.get()}
			mon.SetExtra("H2_scanner_operations_observed", ops)
			for _, k := range []string{"read", "read-at-eof", "unread", "unread-from-eof-slot", "unread-of-line-break"} {
				if ops[k] == 0 {
					return "hook H2 never observed a " + k + " event"
				}
			}
			return ""
		},
	}
	sweeps := &mon.Sub{
		Name:          "long-sweeps",
		Rule:          "contents of 20..40 lines of varying length with each of the break patterns LF, CR, CRLF, LFCR, LF LF CR and CR CR placed at every offset within 3 of 255, 256, 511, 512, 1023, 1024, 2047, 2048 and 4096; the scanner is read to the end and then un-read back to the start one character at a time, then walked back and forth in blocks of 17 and 40, the model compared after every operation; a case is one content",
		Exhaustive:    true,
		DistinctByGen: true,
		Floor:         50,
		Gen: func(emit func(string)) {
			pats := []string{"\n", "\r", "\r\n", "\n\r", "\n\n\r", "\r\r", "\n\rx\r"}
			bases := []int{255, 256, 511, 512, 1023, 1024, 2047, 2048, 4096}
			if cfg.Quick() {
				bases = []int{255, 256, 1023, 1024, 2048}
			}
			for _, base := range bases {
				for d := -3; d <= 3; d++ {
					for pi, pat := range pats {
						var b strings.Builder
						line := 0
						for b.Len() < base+d {
							n := 3 + (line*7+pi)%23
							if b.Len()+n+1 > base+d {
								n = base + d - b.Len()
								b.WriteString(strings.Repeat("x", n))
								break
							}
							b.WriteString(strings.Repeat("x", n))
							b.WriteString(pats[(line+pi)%4])
							line++
						}
						b.WriteString(pat)
						for k := 0; k < 22; k++ {
							b.WriteString(strings.Repeat("y", (k*5+pi)%9))
							b.WriteString(pats[(k+pi)%len(pats)])
						}
						content := b.String()
						n := len([]rune(content))
						ops := strings.Repeat("r", n+1) + strings.Repeat("u", n+2)
						for k := 0; k < 6; k++ {
							ops += strings.Repeat("r", 40) + strings.Repeat("u", 17)
						}
						ops += strings.Repeat("r", n) + strings.Repeat("M", n/3+2)
						// back from the end in jumps of 33..40 characters (every landing position class is met:
						// between CR and LF, on a break, at a line start), re-reading to the end in between
						for k := 0; k < 8; k++ {
							ops += strings.Repeat("r", n+1) + strings.Repeat(string(rune('A'+(k+pi)%8)), n/33+2)
						}
						emit(c11Payload(content, 0, ops))
					}
				}
			}
		},
		Exec: c11Exec(0),
	}
	invalid := &mon.Sub{
		Name: "contents-that-are-not-valid-utf8", Rule: "every content of length <= 5 over {a, LF, CR, 0xFF, 0xC3, 0xA9 (so also the valid pair C3 A9 = é), 0xE2 0x82 (a truncated sequence), U+FFFD}: read to the end, un-read to the start, read again, with the model (every byte that is not part of a valid sequence is one U+FFFD character) compared after every operation",
		Exhaustive: true, DistinctByGen: true, Floor: 500,
		Gen: func(emit func(string)) {
			enumStrings([]string{"a", "\n", "\r", "\xff", "\xc3", "\xa9", "\xe2\x82", "\ufffd"}, 5, func(parts []string) {
				content := joinParts(parts)
				n := len([]rune(content))
				emit(c11Payload(fmt.Sprintf("hex:%x", content), 0, strings.Repeat("r", n+1)+strings.Repeat("u", n+2)+strings.Repeat("r", n)+"MmR"))
			})
		},
		Exec: c11Exec(0),
	}
	huge := &mon.Sub{
		Name: "contents-beyond-65535-characters", Rule: "generated contents of 65 535, 65 536, 65 537, 70 000 and 131 073 characters made of lines of 0..19 letters (blank lines are frequent) ended by LF, CR, CRLF, LFCR, LF LF and CR CR in rotation - plus contents that begin with one line of 65 535 and more letters (its line break in each of the four styles is un-read), and contents of more than 2^20 characters with line breaks un-read in the second half: read to the end, un-read 1500 characters one by one, re-read, jump back in blocks of 33..40 and of 2 and 3, reset, read 3000 and un-read 700; the model compared after every operation; a case is one content",
		Exhaustive: true, DistinctByGen: true, Floor: 5,
		Batch: 1,
		Gen: func(emit func(string)) {
			sizes := []int{65535, 65536, 65537, 70000}
			if !cfg.Quick() {
				sizes = append(sizes, 131073, 262145)
			}
			for _, n := range sizes {
				for variant := 0; variant < cfg.N(2, 6); variant++ {
					ops := strings.Repeat("r", n+1) + strings.Repeat("u", 1500) + strings.Repeat("r", 1501)
					for k := 0; k < 8; k++ {
						ops += strings.Repeat(string(rune('A'+(k+variant)%8)), 12) + strings.Repeat("r", 37)
					}
					ops += strings.Repeat("M", 200) + strings.Repeat("r", 90) + strings.Repeat("m", 200) + "R" + strings.Repeat("r", 3000) + strings.Repeat("u", 700)
					emit(c11Payload(fmt.Sprintf("gen:%d:%d", n, variant), 0, ops))
				}
			}
			// one very long line: columns beyond 65 535, and its line break un-read
			for _, n := range []int{65535 + 40, 65536 + 40, 65537 + 40, 70000, 131073 + 40} {
				for variant := 100; variant < 104; variant++ {
					ops := strings.Repeat("r", n+1) + strings.Repeat("u", 60) + strings.Repeat("r", 61) + strings.Repeat("M", 18) + strings.Repeat("r", 30) + "A" + strings.Repeat("r", 50) + strings.Repeat("u", 45)
					emit(c11Payload(fmt.Sprintf("gen:%d:%d", n, variant), 0, ops))
				}
			}
			// multi-byte characters across the 65 536th byte
			for variant := 200; variant < 212; variant++ {
				content := c11BigContent(fmt.Sprintf("gen:0:%d", variant))
				n := len([]rune(content))
				emit(c11Payload(fmt.Sprintf("gen:0:%d", variant), 0, strings.Repeat("r", n+1)+strings.Repeat("u", 80)+strings.Repeat("r", 81)+"R"+strings.Repeat("r", 20)))
			}
			// beyond 2^20 characters, un-reading line breaks in the second half
			for variant := 0; variant < cfg.N(2, 6); variant++ {
				n := 1<<20 + 1000 + variant
				ops := strings.Repeat("r", n+1) + strings.Repeat("u", 400) + strings.Repeat("r", 401) + strings.Repeat("M", 120) + strings.Repeat("r", 200) + strings.Repeat("u", 150)
				emit(c11Payload(fmt.Sprintf("gen:%d:%d", n, variant), 0, ops))
			}
		},
		Exec: c11Exec(0),
	}
	volume := &mon.Sub{
		Name: "many-scanners-over-distinct-contents", Rule: fmt.Sprintf("%d scanners, one after the other and on all shards at once, each over its own random 15-character content (10 letters, LF, 4 letters; all of the same length): every read must return that content's characters and the final position must be line 2, column 4 - whatever earlier or concurrent scanners in the process were created over; every 5003rd scanner is read half, set aside while the next 5003 come and go, then read to its end and reset (a volume at which anything shared between scanners and keyed by less than the whole text shows)", 16*cfg.N(2000000, 20000000)),
		Exhaustive: true, DistinctByGen: true, Floor: 16,
		Batch: 1,
		Gen: func(emit func(string)) {
			rio.VerifScannerHook = nil // hook H2 keeps a table per content: switched off for this volume run (sub-checks run one after the other)
			for i := 0; i < 16; i++ {
				emit(fmt.Sprintf("vol:%d:%d", i, cfg.N(2000000, 20000000)))
			}
		},
		Final: func(*mon.SubReport) string { installScannerMonitor(); return "" },
		Exec: func(c *mon.Case) {
			var shard, count int
			fmt.Sscanf(c.Payload, "vol:%d:%d", &shard, &count)
			r := mon.NewRng(uint64(shard)+77, "c11-volume")
			buf := make([]byte, 15)
			var old *rio.StringScanner
			var oldContent string
			oldAt := 0
			for i := 0; i < count; i++ {
				x, y := r.Next(), r.Next()
				for k := 0; k < 10; k++ {
					buf[k] = byte('a' + x%26)
					x /= 26
				}
				buf[10] = '\n'
				for k := 11; k < 15; k++ {
					buf[k] = byte('a' + y%26)
					y /= 26
				}
				content := string(buf)
				s := rio.NewStringScanner(content)
				if i%5003 == 0 {
					// this one stays in use while thousands of others come and go
					if old != nil {
						for k := oldAt; k < 15; k++ {
							if ch := old.Read(); ch != rune(oldContent[k]) {
								c.Failf("read returned the wrong character", "a scanner over %q, half read, then set aside while 5003 other scanners were created and used on this shard (and more on others): read #%d returned %q", oldContent, k, ch)
								return
							}
						}
						old.Reset()
						if ch := old.Read(); ch != rune(oldContent[0]) {
							c.Failf("read returned the wrong character", "a long-lived scanner over %q after Reset: first read returned %q", oldContent, ch)
							return
						}
					}
					old, oldContent, oldAt = rio.NewStringScanner(content), content, 7
					for k := 0; k < oldAt; k++ {
						old.Read()
					}
				}
				for k := 0; k < 15; k++ {
					if ch := s.Read(); ch != rune(buf[k]) {
						c.Failf("read returned the wrong character", "scanner #%d of this shard over %q: read #%d returned %q", i, content, k, ch)
						return
					}
				}
				if s.Line() != 2 || s.Column() != 4 || s.Read() != -1 {
					c.Failf("line/column differ from a forward scan to the cursor position (after read)", "scanner #%d of this shard over %q reports line=%d column=%d at the end", i, content, s.Line(), s.Column())
					return
				}
			}
			c.AddEvals(count-1, count)
		},
	}
	tail := &mon.Sub{
		Name: "multi-unread-on-the-last-line", Rule: "contents of 0..2 short lines followed by a last line of 10..45 characters (ended or not by a line break of each style): read to the end-of-input slot and one read further, then UnreadMany(n) for every n in 9..17 and 33..40 that stays inside the last line and for some that leave it, re-reading to the end in between; the model compared after every operation",
		Exhaustive: true, DistinctByGen: true, Floor: 500,
		Gen: func(emit func(string)) {
			for _, head := range []string{"", "ab\n", "ab\r\ncd\r", "\n\r"} {
				for l := 10; l <= 45; l += 5 {
					for _, end := range []string{"", "\n", "\r", "\r\n"} {
						content := head + strings.Repeat("x", l) + end
						n := len([]rune(content))
						for _, op := range "IJKLNOPQABCDEFGH" {
							emit(c11Payload(content, 0, strings.Repeat("r", n+2)+string(op)+strings.Repeat("r", 60)+string(op)+"r"))
						}
					}
				}
			}
		},
		Exec: c11Exec(0),
	}
	return []*mon.Sub{exh, rnd, hooked, sweeps, invalid, huge, tail, volume}
}
