package checks

import (
	"os"
	"path/filepath"
	"sort"

	"verifharness/mon"
)

// corpusSub replays the committed regression inputs under /verif/corpus/<dir>.
func corpusSub(cfg *mon.Config, name, dir string, f func(c *mon.Case, data string)) *mon.Sub {
	return &mon.Sub{
		Name: name,
		Rule: "committed regression inputs under corpus/" + dir + " (harvested from earlier violations, fuzzing and seeded changes), replayed deterministically",
		Gen: func(emit func(string)) {
			files, _ := filepath.Glob(filepath.Join(cfg.Root, "corpus", dir, "*"))
			sort.Strings(files)
			for _, fn := range files {
				b, err := os.ReadFile(fn)
				if err == nil {
					emit(string(b))
				}
			}
			emit("") // the empty input is always part of the corpus
		},
		Exec: func(c *mon.Case) { c.NonTrivial(); f(c, c.Payload) },
	}
}
