package checks

import (
	"fmt"
	"strings"

	"github.com/pip-services3-gox/pip-services3-expressions-gox/tokenizers"

	"verifharness/mon"
)

// C04 — tokenization is lossless.

func init() { mon.Register("C04", buildC04) }

// every character class that selects a different tokenizer state
var c04Alphabet = []string{"a", "e", "1", ".", "-", "+", "/", "*", "'", "\"", "<", ">", "=", "!", "{", "}", "#", ",", " ", "\r", "\n", "é", "ш", "😀"}

var c04Fragments = []string{"abc", "x_1", "12", "3.5", "1e5", "2E-3", ".5", "5.", "-7", "'it''s'", "\"q\"", "'open", "/* c */", "/*open", "// line", "# hash", "<=", "<>", ">=", "<<", ">>", "!=", "{{", "}}", "{{{", "}}}", "{{#if a}}", "{{/a}}", "{{! note }}",
	"\r\n", "\n\r", "\t", "  ", ",", ";", "\"a,b\"", "\"\"", "AND", "not", "Ünï", "шляпа", "€", "￿", "￾", "😀", "-", ".", "/", "e", "E+", "1e", "1e+", "--", "..", "-.", "-.5"}

func randomTokenizerInput(r *mon.Rng, maxParts int) string {
	var b strings.Builder
	n := 1 + r.Intn(maxParts)
	for i := 0; i < n; i++ {
		if r.Chance(1, 2) {
			b.WriteString(mon.Pick(r, c04Alphabet))
		} else {
			b.WriteString(mon.Pick(r, c04Fragments))
		}
	}
	return b.String()
}

// pushBackPositions: does the input contain a character after which some
// state must push back (a sign, dot or slash, an exponent marker, a brace)?
func hasPushBack(s string) bool {
	return strings.ContainsAny(s, "-./eE+{<>!")
}

func c04Check(c *mon.Case, kind, input string) {
	var toks []tok
	p := mon.Try(func() {
		t := newTokenizer(kind)
		setOptions(t, 0)
		toks = tokenizeAll(t, input)
	})
	if p != nil {
		if _, ok := p.Val.(mon.NoProgress); ok {
			c.Failf("tokenizer "+kind+": did not terminate", "input=%q", input)
		} else {
			c.FailPanic("tokenizer "+kind, p)
		}
		return
	}
	var b strings.Builder
	for i, t := range toks {
		b.WriteString(t.Value)
		last := i == len(toks)-1
		if !last && t.Value == "" {
			c.Failf("tokenizer "+kind+": empty token before the end", "input=%q tokens=%s", input, toksString(toks))
			return
		}
		if !last && t.Type == tokenizers.Eof {
			c.Failf("tokenizer "+kind+": end-of-input marker before the end", "input=%q tokens=%s", input, toksString(toks))
			return
		}
	}
	if len(toks) == 0 || toks[len(toks)-1].Type != tokenizers.Eof || toks[len(toks)-1].Value != "" {
		c.Failf("tokenizer "+kind+": stream does not end with exactly one end-of-input marker", "input=%q tokens=%s", input, toksString(toks))
		return
	}
	if b.String() != input {
		c.Failf("tokenizer "+kind+": token values do not concatenate to the input", "input=%q concat=%q tokens=%s", input, b.String(), toksString(toks))
		return
	}
	if hasPushBack(input) {
		c.NonTrivial()
	}
}

func buildC04(cfg *mon.Config) []*mon.Sub {
	installLoopMonitor()
	maxL := cfg.N(3, 5)
	exec := func(c *mon.Case) {
		i := strings.IndexByte(c.Payload, 0)
		c04Check(c, c.Payload[:i], c.Payload[i+1:])
	}
	var subs []*mon.Sub
	for _, kind := range allTokenizers {
		kind := kind
		ml := maxL
		if !cfg.Quick() && (kind == "csvtab" || kind == "genericcpp" || kind == "csvq") {
			ml = 4
		}
		subs = append(subs, &mon.Sub{
			Name:          "exhaustive-" + kind,
			Rule:          fmt.Sprintf("every string of length <= %d over the 24-character alphabet %q, tokenizer %s, all options off; oracle: values concatenate to the input, no empty token before the end, exactly one final end-of-input marker; non-trivial = the string contains a character that forces a push-back decision (sign, dot, slash, exponent marker, brace, angle bracket)", ml, strings.Join(c04Alphabet, ""), kind),
			Exhaustive:    true,
			DistinctByGen: true,
			Floor:         1000,
			Gen: func(emit func(string)) {
				enumStrings(c04Alphabet, ml, func(parts []string) { emit(kind + "\x00" + joinParts(parts)) })
			},
			Exec: exec,
		})
	}
	subs = append(subs, &mon.Sub{
		Name:  "random-long",
		Rule:  "seeded random concatenations of up to 80 single characters and lexeme fragments (numbers in all notations, open and closed quotes and comments, multi-character symbols, mustache tags, line ends, non-ASCII) on all six tokenizer configurations; same oracle; non-trivial as above, distinct by hash",
		Floor: 1000,
		Gen: func(emit func(string)) {
			r := cfg.Rng("c04-random")
			for i := 0; i < cfg.N(20000, 1500000); i++ {
				emit(mon.Pick(r, allTokenizers) + "\x00" + randomTokenizerInput(r, 80))
			}
		},
		Exec: exec,
	})
	subs = append(subs, &mon.Sub{
		Name: "every-code-point", Rule: "every code point of the Basic Multilingual Plane (surrogates excluded; quick: CJK and private-use ranges thinned) and a sample of astral ones, at the start, in the middle and at the end of a short input, on the four built-in tokenizers; same oracle; all distinct",
		Exhaustive: true, DistinctByGen: true, Floor: 1000,
		Gen: func(emit func(string)) {
			step := 1
			for cp := 1; cp <= 0x10FFFF; cp += step {
				if cp >= 0xD800 && cp <= 0xDFFF {
					continue
				}
				if cp > 0xFFFF {
					step = cfg.N(1021, 61)
				}
				if cfg.Quick() && cp > 0x3000 && cp < 0xF000 && cp%11 != 0 {
					continue
				}
				ch := string(rune(cp))
				for _, k := range builtinTokenizers {
					emit(k + "\x00" + ch + "ab " + ch + "1 x" + ch)
				}
			}
		},
		Exec: exec,
	})
	subs = append(subs, &mon.Sub{
		Name: "long-tokens", Rule: "single tokens of every class (word, digits, decimal, quoted string, whitespace run, comment, CSV field, mustache text) of the lengths 1..3 around 255, 256, 1023, 1024, 1025, 2048, 4096, 65535 and 70000 characters, alone and between short tokens, on all tokenizer configurations; same oracle",
		Exhaustive: true, DistinctByGen: true, Floor: 100,
		Gen: func(emit func(string)) {
			var lens []int
			for _, c := range []int{255, 256, 1023, 1024, 1025, 2048, 4096} {
				lens = append(lens, c-1, c, c+1)
			}
			lens = append(lens, 65535, 70000)
			for _, n := range lens {
				if cfg.Quick() && n > 5000 {
					continue
				}
				rep := func(s string) string {
					return strings.Repeat(s, n/len([]rune(s))+1)[:0] + string([]rune(strings.Repeat(s, n/len([]rune(s))+1))[:n])
				}
				toks := []string{rep("w"), rep("wé"), rep("7"), rep("3") + "." + rep("4"), "'" + rep("q ") + "'", "\"" + rep("x,") + "\"", rep(" \t"), "/*" + rep("c*") + "*/", "#" + rep("h"), rep("ш"), rep("ab-"), rep("€"), "x" + rep("€"), "xy" + rep("€"), rep("😀"), "x" + rep("ш")}
				for _, k := range allTokenizers {
					for _, t := range toks {
						emit(k + "\x00" + t)
						emit(k + "\x00" + "a " + t + " b,c")
					}
				}
			}
		},
		Exec: exec,
	})
	subs = append(subs, corpusSub(cfg, "corpus", "tokenize", func(c *mon.Case, data string) {
		for _, k := range allTokenizers {
			c04Check(c, k, data)
		}
	}))
	return subs
}
