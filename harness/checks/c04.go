package checks

import (
	"fmt"
	"strconv"
	"strings"
	"unicode/utf8"

	rio "github.com/pip-services3-gox/pip-services3-expressions-gox/io"

	"github.com/pip-services3-gox/pip-services3-expressions-gox/tokenizers"

	"verifharness/mon"
)

// C04 — tokenization is lossless.

func init() { mon.Register("C04", buildC04) }

// every character class that selects a different tokenizer state
var c04Alphabet = []string{"a", "e", "1", ".", "-", "+", "/", "*", "'", "\"", "<", ">", "=", "!", "{", "}", "#", ",", " ", "\r", "\n", "é", "ш", "😀"}

var c04Fragments = []string{"abc", "x_1", "12", "3.5", "1e5", "2E-3", ".5", "5.", "-7", "'it''s'", "\"q\"", "'open", "/* c */", "/*open", "// line", "# hash", "<=", "<>", ">=", "<<", ">>", "!=", "{{", "}}", "{{{", "}}}", "{{#if a}}", "{{/a}}", "{{! note }}",
	"\r\n", "\n\r", "\t", "  ", ",", ";", "\"a,b\"", "\"\"", "AND", "not", "Ünï", "шляпа", "€", "￿", "￾", "😀", "-", ".", "/", "e", "E+", "1e", "1e+", "--", "..", "-.", "-.5",
	"1e00001", "2.5E-12345", "1e123456x", "7e+00000", "{{! a } b }}", "{{!}x}}", "{{! }} }", "{{!}", "{{! } }}", "1e\u22125", "2.5E\u221210", "\u2212", "\u22127", "1E\uff0b3", "1e\u2013 5", "1\u20442", "3\u00b75", "1\u066b5", "\uff11\uff12", "0x1F", "0b101", "1_000", "1'000"}

func randomTokenizerInput(r *mon.Rng, maxParts int) string {
	var b strings.Builder
	n := 1 + r.Intn(maxParts)
	for i := 0; i < n; i++ {
		if r.Chance(1, 2) {
			b.WriteString(mon.Pick(r, c04Alphabet))
		} else {
			b.WriteString(mon.Pick(r, c04Fragments))
		}
	}
	return b.String()
}

// pushBackPositions: does the input contain a character after which some
// state must push back (a sign, dot or slash, an exponent marker, a brace)?
func hasPushBack(s string) bool {
	return strings.ContainsAny(s, "-./eE+{<>!")
}

func c04Check(c *mon.Case, kind, input string) {
	cfgKind := kind
	if strings.HasPrefix(kind, "csvcfg|") {
		kind = "csv with configured delimiters" // the label used in signatures; the configuration is part of the replay payload
	}
	if strings.HasPrefix(kind, "statecfg|") {
		kind = strings.Split(kind, "|")[1] + " with reconfigured states"
	}
	var toks []tok
	p := mon.Try(func() {
		t := newTokenizer(cfgKind)
		setOptions(t, 0)
		toks = tokenizeAll(t, input)
	})
	if p != nil {
		if _, ok := p.Val.(mon.NoProgress); ok {
			c.Failf("tokenizer "+kind+": did not terminate", "input=%q", input)
		} else {
			c.FailPanic("tokenizer "+kind, p)
		}
		return
	}
	var b strings.Builder
	for i, t := range toks {
		b.WriteString(t.Value)
		last := i == len(toks)-1
		if !last && t.Value == "" {
			c.Failf("tokenizer "+kind+": empty token before the end", "input=%q tokens=%s", input, toksString(toks))
			return
		}
		if !last && t.Type == tokenizers.Eof {
			c.Failf("tokenizer "+kind+": end-of-input marker before the end", "input=%q tokens=%s", input, toksString(toks))
			return
		}
	}
	if len(toks) == 0 || toks[len(toks)-1].Type != tokenizers.Eof || toks[len(toks)-1].Value != "" {
		c.Failf("tokenizer "+kind+": stream does not end with exactly one end-of-input marker", "input=%q tokens=%s", input, toksString(toks))
		return
	}
	if b.String() != input {
		c.Failf("tokenizer "+kind+": token values do not concatenate to the input", "input=%q concat=%q tokens=%s", input, b.String(), toksString(toks))
		return
	}
	if hasPushBack(input) {
		c.NonTrivial()
	}
}

func buildC04(cfg *mon.Config) []*mon.Sub {
	installLoopMonitor()
	maxL := cfg.N(3, 5)
	exec := func(c *mon.Case) {
		i := strings.IndexByte(c.Payload, 0)
		c04Check(c, c.Payload[:i], c.Payload[i+1:])
	}
	var subs []*mon.Sub
	for _, kind := range allTokenizers {
		kind := kind
		ml := maxL
		if !cfg.Quick() && (kind == "csvtab" || kind == "genericcpp" || kind == "csvq") {
			ml = 4
		}
		subs = append(subs, &mon.Sub{
			Name:          "exhaustive-" + kind,
			Rule:          fmt.Sprintf("every string of length <= %d over the 24-character alphabet %q, tokenizer %s, all options off; oracle: values concatenate to the input, no empty token before the end, exactly one final end-of-input marker; non-trivial = the string contains a character that forces a push-back decision (sign, dot, slash, exponent marker, brace, angle bracket)", ml, strings.Join(c04Alphabet, ""), kind),
			Exhaustive:    true,
			DistinctByGen: true,
			Floor:         1000,
			Gen: func(emit func(string)) {
				enumStrings(c04Alphabet, ml, func(parts []string) { emit(kind + "\x00" + joinParts(parts)) })
			},
			Exec: exec,
		})
	}
	subs = append(subs, &mon.Sub{
		Name: "exhaustive-line-ends", Rule: "every string of length <= 6 over {a, comma, CR, LF} (so every mixture of line ends and blank lines: CR LF CR CR, LF CR LF LF ...) on all tokenizer configurations; same oracle",
		Exhaustive: true, DistinctByGen: true, Floor: 1000,
		Gen: func(emit func(string)) {
			enumStrings([]string{"a", ",", "\r", "\n"}, 6, func(parts []string) {
				if len(parts) < 4 {
					return
				}
				for _, k := range allTokenizers {
					emit(k + "\x00" + joinParts(parts))
				}
			})
		},
		Exec: exec,
	})
	subs = append(subs, &mon.Sub{
		Name:  "random-long",
		Rule:  "seeded random concatenations of up to 80 single characters and lexeme fragments (numbers in all notations, open and closed quotes and comments, multi-character symbols, mustache tags, line ends, non-ASCII) on all six tokenizer configurations; same oracle; non-trivial as above, distinct by hash",
		Floor: 1000,
		Gen: func(emit func(string)) {
			r := cfg.Rng("c04-random")
			for i := 0; i < cfg.N(20000, 1500000); i++ {
				emit(mon.Pick(r, allTokenizers) + "\x00" + randomTokenizerInput(r, 80))
			}
		},
		Exec: exec,
	})
	subs = append(subs, &mon.Sub{
		Name: "every-code-point", Rule: "every code point of the Basic Multilingual Plane (surrogates excluded; quick: CJK and private-use ranges thinned) and a sample of astral ones, at the start, in the middle and at the end of a short input, on the four built-in tokenizers; same oracle; all distinct",
		Exhaustive: true, DistinctByGen: true, Floor: 1000,
		Gen: func(emit func(string)) {
			step := 1
			for cp := 1; cp <= 0x10FFFF; cp += step {
				if cp >= 0xD800 && cp <= 0xDFFF {
					continue
				}
				if cp > 0xFFFF {
					step = cfg.N(1021, 61)
				}
				if cfg.Quick() && cp > 0x3000 && cp < 0xF000 && cp%11 != 0 {
					continue
				}
				ch := string(rune(cp))
				for _, k := range builtinTokenizers {
					emit(k + "\x00" + ch + "ab " + ch + "1 x" + ch)
				}
			}
		},
		Exec: exec,
	})
	subs = append(subs, &mon.Sub{
		Name: "long-tokens", Rule: "single tokens of every class (word, digits, decimal, quoted string, whitespace run, comment, CSV field, mustache text) of the lengths 1..3 around 255, 256, 1023, 1024, 1025, 2048, 4096, 65535 and 70000 characters, alone and between short tokens, on all tokenizer configurations; same oracle",
		Exhaustive: true, DistinctByGen: true, Floor: 100,
		Gen: func(emit func(string)) {
			var lens []int
			for _, c := range []int{255, 256, 1023, 1024, 1025, 2048, 4096} {
				lens = append(lens, c-1, c, c+1)
			}
			lens = append(lens, 65535, 70000)
			for _, n := range lens {
				if cfg.Quick() && n > 5000 {
					continue
				}
				rep := func(s string) string {
					return strings.Repeat(s, n/len([]rune(s))+1)[:0] + string([]rune(strings.Repeat(s, n/len([]rune(s))+1))[:n])
				}
				toks := []string{rep("w"), rep("wé"), rep("7"), rep("3") + "." + rep("4"), "'" + rep("q ") + "'", "\"" + rep("x,") + "\"", rep(" \t"), "/*" + rep("c*") + "*/", "#" + rep("h"), "{{" + rep(" ") + "a}}", "{{{" + rep(" \t") + "b }}}", "{{" + rep("\n") + "! c }}", "x{{#" + rep(" ") + "s}}y{{/s}}", rep("ш"), rep("ab-"), rep("€"), "x" + rep("€"), "xy" + rep("€"), rep("😀"), "x" + rep("ш")}
				for _, k := range allTokenizers {
					for _, t := range toks {
						emit(k + "\x00" + t)
						emit(k + "\x00" + "a " + t + " b,c")
					}
				}
			}
		},
		Exec: exec,
	})
	subs = append(subs, &mon.Sub{
		Name: "csv-configured-delimiters", Rule: "CSV tokenizers configured with one or two field separators and quote symbols drawn from TAB ; | ~ U+007F U+0080 U+00A0 U+00A7 U+00FF U+0100 U+2028 U+20AC U+FFFD U+FFFE (separators) and ' \" ` U+00AB U+00B4 U+2019 U+FFFE (quotes), on seeded inputs made of those very characters, letters, digits, blanks and line ends; same oracle (so every delimiter token carries exactly the delimiter's text); non-trivial = the input contains a configured separator (or a push-back character); distinct by hash",
		Floor: 1000,
		Gen: func(emit func(string)) {
			r := cfg.Rng("c04-csvcfg")
			seps := []rune{' ', '\t', ';', '|', '~', 0x7f, 0x80, 0xa0, 0xa7, 0xff, 0x100, 0x2028, 0x20ac, 0xfffd, 0xfffe}
			quotes := []rune{'\'', '"', '`', 0xab, 0xb4, 0x2019, 0xfffe}
			for i := 0; i < cfg.N(6000, 300000); i++ {
				ss := []rune{mon.Pick(r, seps)}
				if r.Bool() {
					ss = append(ss, mon.Pick(r, seps))
				}
				qs := []rune{mon.Pick(r, quotes)}
				if r.Bool() {
					qs = append(qs, mon.Pick(r, quotes))
				}
				ok := true
				for _, q := range qs {
					for _, s := range ss {
						if q == s {
							ok = false
						}
					}
				}
				if !ok {
					continue
				}
				alpha := []string{"a", "b", "1", " ", "\n", "\r", "é", ",", "x y"}
				for _, x := range append(append([]rune{}, ss...), qs...) {
					alpha = append(alpha, string(x), string(x))
				}
				var b strings.Builder
				for n := 1 + r.Intn(14); n > 0; n-- {
					b.WriteString(mon.Pick(r, alpha))
				}
				emit("csvcfg|" + string(ss) + "|" + string(qs) + "\x00" + b.String())
			}
		},
		Exec: func(c *mon.Case) {
			i := strings.IndexByte(c.Payload, 0)
			kind, input := c.Payload[:i], c.Payload[i+1:]
			c04Check(c, kind, input)
			if strings.ContainsAny(input, strings.SplitN(kind, "|", 3)[1]) {
				c.NonTrivial()
				c.Count("inputs-containing-a-configured-separator")
			}
		},
	})
	subs = append(subs, &mon.Sub{
		Name: "reconfigured-states", Rule: "built-in tokenizers (generic, expression, mustache, csv) whose states were reconfigured through their public setters - one to three of: a blank character (space, TAB, CR, LF, U+00A0) taken out of the whitespace state's set while still routed to that state, a letter or digit or underscore taken out of the word state's set, a further symbol of two to four characters from < > = ~ ! & : (so also symbols whose proper prefixes are not symbols) - on seeded inputs made of exactly those characters plus letters, digits and blanks, with every proper prefix of an added symbol tried at the very end of the input; same oracle; non-trivial = the input contains a character or symbol prefix the reconfiguration is about; distinct by hash",
		Floor: 1000,
		Gen: func(emit func(string)) {
			r := cfg.Rng("c04-statecfg")
			blanks := []string{" ", "\t", "\r", "\n", "\u00a0"}
			wordch := []string{"a", "b", "z", "_", "1", "9", "é"}
			symch := []string{"<", ">", "=", "~", "!", "&", ":"}
			for i := 0; i < cfg.N(8000, 400000); i++ {
				base := mon.Pick(r, builtinTokenizers)
				var ops, about []string
				for n := 1 + r.Intn(3); n > 0; n-- {
					switch r.Intn(3) {
					case 0:
						x := mon.Pick(r, blanks)
						ops, about = append(ops, "ws-"+x), append(about, x)
					case 1:
						x := mon.Pick(r, wordch)
						ops, about = append(ops, "wd-"+x), append(about, x)
					default:
						sy := ""
						for k := 2 + r.Intn(3); k > 0; k-- {
							sy += mon.Pick(r, symch)
						}
						ops = append(ops, "sy+"+sy)
						for k := 1; k <= len(sy); k++ {
							about = append(about, sy[:k])
						}
					}
				}
				alpha := append([]string{"a", "b", "1", " ", "x y", "+", "\n"}, about...)
				alpha = append(alpha, about...)
				var b strings.Builder
				for n := 1 + r.Intn(10); n > 0; n-- {
					b.WriteString(mon.Pick(r, alpha))
				}
				b.WriteString(mon.Pick(r, about)) // the input ends on a character / symbol prefix the reconfiguration is about
				emit("statecfg|" + base + "|" + strings.Join(ops, "|") + "\x00" + b.String())
			}
		},
		Exec: func(c *mon.Case) {
			i := strings.IndexByte(c.Payload, 0)
			kind, input := c.Payload[:i], c.Payload[i+1:]
			c04Check(c, kind, input)
			c.NonTrivial()
			c.Count("base tokenizer " + strings.Split(kind, "|")[1])
		},
	})
	subs = append(subs, &mon.Sub{
		Name: "partly-read-stream", Rule: "TokenizeStream on a scanner from which the caller has already read k characters (every k from 0 to the length, so also an exhausted scanner), all tokenizer configurations, seeded inputs: the token values must concatenate to exactly the unread rest and end with one end-of-input marker (nothing already consumed comes back); non-trivial = k > 0",
		Floor: 1000,
		Gen: func(emit func(string)) {
			r := cfg.Rng("c04-partly")
			for i := 0; i < cfg.N(3000, 150000); i++ {
				emit(mon.Pick(r, allTokenizers) + "\x00" + randomTokenizerInput(r, 8))
			}
		},
		Exec: func(c *mon.Case) {
			i := strings.IndexByte(c.Payload, 0)
			kind, input := c.Payload[:i], c.Payload[i+1:]
			rs := []rune(input)
			t := newTokenizer(kind)
			setOptions(t, 0)
			for k := 0; k <= len(rs); k++ {
				sc := rio.NewStringScanner(input)
				for j := 0; j < k; j++ {
					sc.Read()
				}
				var got []*tokenizers.Token
				if p := mon.Try(func() { got = t.TokenizeStream(sc) }); p != nil {
					c.FailPanic("TokenizeStream "+kind, p)
					return
				}
				var b strings.Builder
				for _, x := range got {
					b.WriteString(x.Value())
				}
				rest := string(rs[k:])
				if strings.ContainsRune(rest, 0xFFFD) || !utf8.ValidString(rest) {
					continue
				}
				if b.String() != rest || len(got) == 0 || got[len(got)-1].Type() != tokenizers.Eof {
					c.Failf("tokenizer "+kind+": a partly read stream is not tokenized from where the caller stopped", "input=%q already read=%d rest=%q tokens=%s", input, k, rest, toksOf(got))
					return
				}
			}
			c.AddEvals(len(rs), 0)
			if len(rs) > 0 {
				c.NonTrivial()
			}
		},
	})
	subs = append(subs, &mon.Sub{
		Name: "many-distinct-words-one-instance", Rule: fmt.Sprintf("%d x 250000 random identifiers of 8 letters and digits (practically all distinct), separated by single blanks (inside one tag for the mustache tokenizer), streamed through ONE instance of a built-in tokenizer, input after input, on 4 instances of each of the 4 tokenizers; every token value is compared with the text at its place as it arrives (same oracle, at a volume where anything remembered per spelling is exercised); a case is one tokenizer instance", cfg.N(4, 40)),
		Exhaustive: true, DistinctByGen: true, Floor: 16,
		Batch: 1,
		Gen: func(emit func(string)) {
			for inst := 0; inst < 4; inst++ {
				for _, k := range builtinTokenizers {
					emit(k + "\x00" + strconv.Itoa(cfg.N(4, 40)) + "\x00" + strconv.Itoa(inst))
				}
			}
		},
		Exec: func(c *mon.Case) {
			i := strings.IndexByte(c.Payload, 0)
			kind := c.Payload[:i]
			rest := strings.SplitN(c.Payload[i+1:], "\x00", 2)
			rounds, _ := strconv.Atoi(rest[0])
			r := mon.NewRng(12345, "c04-volume-"+kind+rest[len(rest)-1])
			t := newTokenizer(kind)
			setOptions(t, 0)
			const letters = "abcdefghijklmnopqrstuvwxyz0123456789"
			words := 0
			for round := 0; round < rounds; round++ {
				var b strings.Builder
				if kind == "mustache" {
					b.WriteString("{{")
				}
				for w := 0; w < 250000; w++ {
					b.WriteByte(letters[r.Intn(26)])
					for x, n := r.Next(), 7; n > 0; n-- {
						b.WriteByte(letters[x%36])
						x /= 36
					}
					b.WriteByte(' ')
				}
				if kind == "mustache" {
					b.WriteString("}}")
				}
				input := b.String()
				pos := 0
				bad := ""
				if p := mon.Try(func() {
					t.SetReader(rio.NewStringScanner(input))
					for {
						x := t.NextToken()
						if x == nil {
							break
						}
						v := x.Value()
						if x.Type() == tokenizers.Eof {
							continue
						}
						if v == "" || !strings.HasPrefix(input[pos:], v) {
							end := pos + 20
							if end > len(input) {
								end = len(input)
							}
							bad = fmt.Sprintf("round %d, offset %d: token %s where the input has %q", round, pos, tok{x.Type(), v, x.Line(), x.Column()}, input[pos:end])
							return
						}
						pos += len(v)
						words++
					}
				}); p != nil {
					c.FailPanic("tokenizer "+kind, p)
					return
				}
				if bad == "" && pos != len(input) {
					bad = fmt.Sprintf("round %d: tokens cover %d of %d bytes", round, pos, len(input))
				}
				if bad != "" {
					c.Failf("tokenizer "+kind+": token values do not concatenate to the input", "%s", bad)
					return
				}
			}
			c.AddEvals(words, 0)
			c.NonTrivial()
		},
	})
	subs = append(subs, corpusSub(cfg, "corpus", "tokenize", func(c *mon.Case, data string) {
		for _, k := range allTokenizers {
			c04Check(c, k, data)
		}
	}))
	return subs
}
