package checks

import (
	"fmt"
	"strconv"
	"strings"

	ctok "github.com/pip-services3-gox/pip-services3-expressions-gox/calculator/tokenizers"
	"github.com/pip-services3-gox/pip-services3-expressions-gox/csv"
	rio "github.com/pip-services3-gox/pip-services3-expressions-gox/io"
	"github.com/pip-services3-gox/pip-services3-expressions-gox/tokenizers"
	"github.com/pip-services3-gox/pip-services3-expressions-gox/tokenizers/generic"

	"verifharness/mon"
)

// C14 — quote encoding and decoding are inverse and total.

func init() { mon.Register("C14", buildC14) }

var c14States = []string{"generic", "expression", "csv"}

// 'Ч' (U+0427) and '•' (U+2022) share their low byte with ' and "; '%' is a format verb introducer
var c14Quotes = []rune{'\'', '"', '`', '«', 'Ч', '•', '%'}

// the tokenizer argument of a quote state's NextToken is not used by any of the
// three states; shared read-only instances keep the cases cheap.
var c14Tokenizers = map[string]tokenizers.ITokenizer{
	"generic": generic.NewGenericTokenizer(), "expression": ctok.NewExpressionTokenizer(), "csv": csv.NewCsvTokenizer(),
}

func c14State(name string) (tokenizers.IQuoteState, tokenizers.ITokenizer) {
	switch name {
	case "generic":
		return generic.NewGenericQuoteState(), c14Tokenizers[name]
	case "expression":
		return ctok.NewExpressionQuoteState(), c14Tokenizers[name]
	case "csv":
		return csv.NewCsvQuoteState(), c14Tokenizers[name]
	}
	panic(name)
}

// payload: state \x00 quote \x00 mode \x00 text      mode: "rt" round trip + stream, "dec" decode of arbitrary text
func c14Exec(c *mon.Case) {
	parts := strings.SplitN(c.Payload, "\x00", 4)
	st, tk := c14State(strings.TrimSuffix(parts[0], "+bound"))
	q := []rune(parts[1])[0]
	s := parts[3]
	if strings.HasPrefix(s, "big:") { // big texts are generated from their parameters: length, and whether they begin / end with the quote
		var n, shape int
		fmt.Sscanf(s, "big:%d:%d", &n, &shape)
		body := strings.Repeat("abcdefghij klmnopqrstuvwxy\n", n/27+1)[:n-2]
		head, tail := "x", "y"
		if shape&1 != 0 {
			head = string(q)
		}
		if shape&2 != 0 {
			tail = string(q)
		}
		s = head + body + tail
	}
	multibyte := len(s) != len([]rune(s))
	if parts[2] == "dec" {
		if p := mon.Try(func() { st.DecodeString(s, q) }); p != nil {
			c.FailPanic(parts[0]+" DecodeString", p)
			return
		}
		if multibyte || strings.ContainsRune(s, q) {
			c.NonTrivial()
		}
		return
	}
	if parts[2] == "api" {
		// the encoded form placed in a text and read by the whole tokenizer with string decoding on, through the token
		// list and the string list entry points (expression: apostrophe literals, CSV: the configured quote)
		var enc string
		if p := mon.Try(func() { enc = st.EncodeString(s, q) }); p != nil {
			c.FailPanic(parts[0]+" EncodeString", p)
			return
		}
		for _, tail := range []string{"", " y", ",z"} {
			var toks []*tokenizers.Token
			var strs []string
			if p := mon.Try(func() {
				var t tokenizers.ITokenizer
				switch {
				case strings.HasSuffix(parts[0], "+bound"):
					// a quote state of the caller's own, bound to the quote character with the public SetCharacterState
					// (on a generic or an expression tokenizer by the first letter of the text's length parity)
					var own tokenizers.IQuoteState = csv.NewCsvQuoteState()
					if strings.HasPrefix(parts[0], "expression") {
						own = ctok.NewExpressionQuoteState()
					}
					if len(s)%2 == 0 {
						gt := generic.NewGenericTokenizer()
						gt.SetCharacterState(q, q, own)
						t = gt
					} else {
						et := ctok.NewExpressionTokenizer()
						et.SetCharacterState(q, q, own)
						t = et
					}
				case parts[0] == "csv":
					ct := csv.NewCsvTokenizer()
					if q != '"' {
						ct.SetQuoteSymbols([]rune{q})
					}
					t = ct
				default:
					et := ctok.NewExpressionTokenizer()
					if q != '\'' { // a further quote character handed to the tokenizer's own quote state
						et.SetCharacterState(q, q, et.QuoteState())
					}
					t = et
				}
				t.SetDecodeStrings(true)
				toks = t.TokenizeBuffer(enc + tail)
				strs = t.TokenizeBufferToStrings(enc + tail)
			}); p != nil {
				c.FailPanic(parts[0]+" tokenizer with string decoding", p)
				return
			}
			if len(toks) == 0 || toks[0].Type() != tokenizers.Quoted || toks[0].Value() != s {
				c.Failf(parts[0]+" tokenizer: an encoded string in a text is not read back as one token with the original as decoded value", "quote=%q s=%q text=%q tokens=%s", q, s, enc+tail, toksOf(toks))
				return
			}
			okStrs := len(strs) == len(toks)
			for i := 0; okStrs && i < len(toks); i++ {
				okStrs = strs[i] == toks[i].Value()
			}
			if !okStrs {
				c.Failf(parts[0]+" tokenizer: the string list of a text with an encoded string is not the list of token values", "quote=%q s=%q text=%q tokens=%s strings=%q", q, s, enc+tail, toksOf(toks), strs)
				return
			}
		}
		c.NonTrivial()
		return
	}
	var enc, dec string
	if p := mon.Try(func() { enc = st.EncodeString(s, q) }); p != nil {
		c.FailPanic(parts[0]+" EncodeString", p)
		return
	}
	if p := mon.Try(func() { dec = st.DecodeString(enc, q) }); p != nil {
		c.FailPanic(parts[0]+" DecodeString", p)
		return
	}
	if dec != s {
		c.Failf(parts[0]+" quote state: decode(encode(s)) differs from s", "quote=%q s=%q encoded=%q decoded=%q", q, s, enc, dec)
		return
	}
	if multibyte || strings.ContainsRune(s, q) {
		c.NonTrivial()
	}
	if parts[0] == "generic" {
		return // the generic encoder does not escape; the stream clause is stated for expression and CSV only
	}
	for _, tail := range []string{"", "x", " y", ",\n", "é"} {
		sc := rio.NewStringScanner(enc + tail)
		var t *tokenizers.Token
		if p := mon.Try(func() { t = st.NextToken(sc, tk) }); p != nil {
			c.FailPanic(parts[0]+" quote state NextToken", p)
			return
		}
		var rest strings.Builder
		for ch := sc.Read(); ch != -1; ch = sc.Read() {
			rest.WriteRune(ch)
		}
		if t == nil || t.Value() != enc || rest.String() != tail {
			v := "<nil>"
			if t != nil {
				v = t.Value()
			}
			c.Failf(parts[0]+" quote state: an encoded string in a stream is not read back as exactly one token", "quote=%q s=%q stream=%q token=%q unread rest=%q want token=%q rest=%q", q, s, enc+tail, v, rest.String(), enc, tail)
			return
		}
		var d2 string
		if p := mon.Try(func() { d2 = st.DecodeString(t.Value(), q) }); p != nil || d2 != s {
			c.Failf(parts[0]+" quote state: token read from the stream does not decode to the original", "quote=%q s=%q token=%q decoded=%q", q, s, t.Value(), d2)
			return
		}
	}
}

func buildC14(cfg *mon.Config) []*mon.Sub {
	maxL := cfg.N(5, 7)
	gen := func(mode string, maxL int) func(emit func(string)) {
		return func(emit func(string)) {
			for _, q := range c14Quotes {
				other := "'"
				if q == '\'' {
					other = "\""
				}
				alpha := []string{string(q), other, "n", "é", "€", "😀", " ", "\n", "\ufffd", "\\"}
				enumStrings(alpha, maxL, func(parts []string) {
					s := joinParts(parts)
					for _, st := range c14States {
						emit(st + "\x00" + string(q) + "\x00" + mode + "\x00" + s)
					}
				})
			}
		}
	}
	rt := &mon.Sub{
		Name:          "roundtrip-and-stream-exhaustive",
		Rule:          fmt.Sprintf("every string of length <= %d over {quote, other quote, n, é (2-byte), € (3-byte), 😀 (4-byte), space, LF, U+FFFD, backslash} x quote in {apostrophe, double quote, backtick, «, Ч, •, percent sign} x the generic, expression and CSV quote states: decode(encode(s)) = s; for expression and CSV, encode(s)+tail (five tails) read by the state's NextToken is one token equal to encode(s), leaves the tail unread and decodes to s; non-trivial = s contains a multi-byte character or the quote", maxL),
		Exhaustive:    true,
		DistinctByGen: true,
		Floor:         1000,
		Gen:           gen("rt", maxL),
		Exec:          c14Exec,
	}
	dec := &mon.Sub{
		Name:          "decode-total-exhaustive",
		Rule:          fmt.Sprintf("DecodeString on every string of length <= %d over the same alphabet (arbitrary text: lone quotes, unterminated, empty) must return without panicking; non-trivial as above", cfg.N(5, 6)),
		Exhaustive:    true,
		DistinctByGen: true,
		Floor:         1000,
		Gen:           gen("dec", cfg.N(5, 6)),
		Exec:          c14Exec,
	}
	rnd := &mon.Sub{
		Name:  "random-long",
		Rule:  "seeded random strings of up to 100 runes from ASCII, Latin-1, BMP, astral, quotes, CR/LF x quote characters x the three states, round trip, stream and decode-only modes; a quarter of the strings (also texts with backslash sequences, percent and ampersand escapes of other conventions) additionally through the whole expression / CSV tokenizer with string decoding on (expression: apostrophe, or backtick / « handed to the tokenizer's own quote state with SetCharacterState; CSV: the quote configured): the encoded form followed by three tails must come back as first token of type Quoted with the original as value, and TokenizeBufferToStrings must list exactly the token values",
		Floor: 1000,
		Gen: func(emit func(string)) {
			r := cfg.Rng("c14-random")
			pool := []string{"a", "Z", "0", " ", "\n", "\r", "\t", "'", "\"", "`", "«", "»", "é", "ÿ", "ш", "€", "￾", "😀", "𝄞", "''", "\"\"", ",", ";", "\ufeff", "\u00a0", "\u2028", "%", "%s", "Ч", "•", "\ufffd", "\x00", "\x01", "\\", "\\n", "\\t", "\\r", "\\\\", "\\'", "\\\"", "\\u0041", "\\x41", "n", "t", "%20", "&amp;", "&#39;", "$1", "${x}"}
			for i := 0; i < cfg.N(30000, 2000000); i++ {
				var b strings.Builder
				n := r.Intn(100)
				for j := 0; j < n; j++ {
					b.WriteString(mon.Pick(r, pool))
				}
				mode := "rt"
				if r.Chance(1, 3) {
					mode = "dec"
				}
				emit(mon.Pick(r, c14States) + "\x00" + string(mon.Pick(r, c14Quotes)) + "\x00" + mode + "\x00" + b.String())
				if i%4 == 0 {
					// through the whole tokenizer: apostrophe literals of the expression language, CSV with the quote configured
					if r.Bool() {
						emit("expression\x00" + string(mon.Pick(r, []rune{'\'', '\'', '`', '«'})) + "\x00api\x00" + b.String())
					} else {
						emit("csv\x00" + string(mon.Pick(r, []rune{'"', '\'', '`', '«'})) + "\x00api\x00" + b.String())
					}
				}
			}
		},
		Exec: c14Exec,
	}
	huge := &mon.Sub{
		Name: "values-of-a-mebibyte-and-more", Rule: "strings of 2^20 (thorough: also 2^20-2, 2^20+3, 3 * 2^20 and 2^24+5) characters that begin and/or end with the quote character (and ones that do not), x the three states x apostrophe and double quote: decode(encode(s)) = s, and for expression and CSV the encoded form is read back from a stream as one token that decodes to s",
		Exhaustive: true, DistinctByGen: true, Floor: 20,
		Batch: 1,
		Gen: func(emit func(string)) {
			sizes := []int{1 << 20}
			if !cfg.Quick() {
				sizes = []int{1<<20 - 2, 1 << 20, 1<<20 + 3, 3 << 20, 1<<24 + 5}
			}
			for _, n := range sizes {
				for _, q := range []string{"'", "\""} {
					for shape := 0; shape < 4; shape++ {
						for _, st := range c14States {
							emit(st + "\x00" + q + "\x00rt\x00big:" + strconv.Itoa(n) + ":" + strconv.Itoa(shape))
						}
					}
				}
			}
		},
		Exec: c14Exec,
	}
	return []*mon.Sub{rt, dec, rnd, huge}
}
