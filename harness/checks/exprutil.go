package checks

import (
	"fmt"
	"strconv"
	"strings"

	cerr "github.com/pip-services3-gox/pip-services3-commons-gox/errors"
	"github.com/pip-services3-gox/pip-services3-expressions-gox/calculator"
	"github.com/pip-services3-gox/pip-services3-expressions-gox/calculator/functions"
	"github.com/pip-services3-gox/pip-services3-expressions-gox/calculator/parsers"
	"github.com/pip-services3-gox/pip-services3-expressions-gox/calculator/variables"
	"github.com/pip-services3-gox/pip-services3-expressions-gox/variants"

	"verifharness/model"
	"verifharness/mon"
)

// Shared helpers for the expression checks (C01, C02, C18, C19, C03, C05).

var exprTokTypeNames = []string{"Unknown", "LeftBrace", "RightBrace", "LeftSquareBrace", "RightSquareBrace", "Plus", "Minus", "Star", "Slash", "Procent", "Power", "Equal", "NotEqual",
	"More", "Less", "EqualMore", "EqualLess", "ShiftLeft", "ShiftRight", "And", "Or", "Xor", "Is", "In", "NotIn", "Element", "Null", "Not", "Like", "NotLike", "IsNull", "IsNotNull", "Comma", "Unary", "Function", "Variable", "Constant"}

// litVal is the value a constant literal denotes: integers are Integer,
// decimals and scientific numbers Float (single precision), 'quoted' text a
// String with doubled quotes decoded, TRUE/FALSE Boolean.
func litVal(lit string) Val {
	u := strings.ToUpper(lit)
	switch {
	case u == "TRUE":
		return vBool(true)
	case u == "FALSE":
		return vBool(false)
	case strings.HasPrefix(lit, "'"):
		return vStr(strings.ReplaceAll(lit[1:len(lit)-1], "''", "'"))
	case strings.ContainsAny(lit, ".eE"):
		// the value the library's own String -> Float conversion gives (C07): the double the text spells, rounded to single
		f, _ := strconv.ParseFloat(lit, 64)
		return vFloat(float32(f))
	}
	i, err := strconv.ParseInt(lit, 10, 64)
	if err != nil {
		f, _ := strconv.ParseFloat(lit, 64)
		return vInt(int(int64(f)))
	}
	return vInt(int(i))
}

// identName is the name an identifier token denotes ("quoted" identifiers are decoded).
func identName(lit string) string {
	if strings.HasPrefix(lit, "\"") && len(lit) >= 2 {
		return strings.ReplaceAll(lit[1:len(lit)-1], "\"\"", "\"")
	}
	return lit
}

// wantProgram renders the model's post-order program in the form used for comparison.
func wantProgram(n *model.Node, signFirst bool) []string {
	rpn := model.RPN(n, signFirst)
	for i, e := range rpn {
		switch {
		case strings.HasPrefix(e, "Constant:"):
			rpn[i] = "Constant:" + litVal(e[9:]).String()
		case strings.HasPrefix(e, "Variable:"):
			rpn[i] = "Variable:" + identName(e[9:])
		case strings.HasPrefix(e, "Function:"):
			rpn[i] = "Function:" + identName(e[9:])
		}
	}
	return rpn
}

// gotProgram renders the program compiled by the real parser.
func gotProgram(toks []*parsers.ExpressionToken) []string {
	out := make([]string, len(toks))
	for i, t := range toks {
		name := "Type" + strconv.Itoa(t.Type())
		if t.Type() >= 0 && t.Type() < len(exprTokTypeNames) {
			name = exprTokTypeNames[t.Type()]
		}
		switch t.Type() {
		case parsers.Constant:
			out[i] = "Constant:" + snap(t.Value()).String()
		case parsers.Variable, parsers.Function:
			v := snap(t.Value())
			out[i] = name + ":" + v.V
		default:
			out[i] = name
		}
	}
	return out
}

func errCode(err error) string {
	if err == nil {
		return ""
	}
	if ae, ok := err.(*cerr.ApplicationError); ok {
		return ae.Code
	}
	return "?"
}

// env is a variable assignment: ordered (name, value) pairs.
type env struct {
	names []string
	vals  []Val
}

func (e *env) lookup(name string) (Val, bool) {
	u := strings.ToUpper(name)
	for i, n := range e.names {
		if strings.ToUpper(n) == u {
			return e.vals[i], true
		}
	}
	return Val{}, false
}

func (e *env) collection() *variables.VariableCollection {
	vc := variables.NewVariableCollection()
	for i, n := range e.names {
		vc.Add(variables.NewVariable(n, e.vals[i].Variant()))
	}
	return vc
}

func (e *env) String() string {
	var p []string
	for i, n := range e.names {
		p = append(p, n+"="+e.vals[i].String())
	}
	return "{" + strings.Join(p, ", ") + "}"
}

func encEnv(e *env) string { return strings.Join(e.names, ",") + "\x01" + encVals(e.vals...) }
func decEnv(s string) *env {
	i := strings.IndexByte(s, 1)
	e := &env{vals: decVals(s[i+1:])}
	if s[:i] != "" {
		e.names = strings.Split(s[:i], ",")
	}
	return e
}

type evalOutcome struct {
	val    Val
	isErr  bool
	code   string
	unspec string // non-empty: the statement does not determine the value (LIKE, clock/random functions)
}

func (o evalOutcome) String() string {
	if o.isErr {
		return "error(" + o.code + ")"
	}
	return o.val.String()
}

var defaultFuncs = functions.NewDefaultFunctionCollection()

// evalTree evaluates a syntax tree directly: every node applies the variant
// operation of the given manager to its operands in written order.
func evalTree(n *model.Node, e *env, ops variants.IVariantOperations) (out evalOutcome) {
	fail := func(err error) evalOutcome { return evalOutcome{isErr: true, code: errCode(err)} }
	var ev func(n *model.Node) (*variants.Variant, *evalOutcome)
	bin := func(f func(a, b *variants.Variant) (*variants.Variant, error), a, b *variants.Variant) (*variants.Variant, *evalOutcome) {
		r, err := f(a, b)
		if err != nil {
			o := fail(err)
			return nil, &o
		}
		return r, nil
	}
	ev = func(n *model.Node) (*variants.Variant, *evalOutcome) {
		switch n.Op {
		case "const":
			return litVal(n.Lit).Variant(), nil
		case "var":
			v, ok := e.lookup(identName(n.Lit))
			if !ok {
				return nil, &evalOutcome{isErr: true, code: "VAR_NOT_FOUND"}
			}
			return v.Variant(), nil
		case "call":
			f := defaultFuncs.FindByName(identName(n.Lit))
			if f == nil {
				// the calculator looks the function up when it reaches the call, i.e. after its arguments
				for _, k := range n.Kids {
					if _, o := ev(k); o != nil {
						return nil, o
					}
				}
				return nil, &evalOutcome{isErr: true, code: "FUNC_NOT_FOUND"}
			}
			args := make([]*variants.Variant, len(n.Kids))
			for i, k := range n.Kids {
				v, o := ev(k)
				if o != nil {
					return nil, o
				}
				args[i] = v
			}
			r, err := f.Calculate(args, ops)
			if err != nil {
				o := fail(err)
				return nil, &o
			}
			if r == nil {
				return nil, &evalOutcome{unspec: "function returned (nil,nil) (C08)"}
			}
			switch strings.ToUpper(identName(n.Lit)) {
			case "NOW", "TICKS", "RND", "RANDOM":
				return nil, &evalOutcome{unspec: "clock or random function"}
			}
			return r, nil
		}
		var kids []*variants.Variant
		for _, k := range n.Kids {
			v, o := ev(k)
			if o != nil {
				return nil, o
			}
			kids = append(kids, v)
		}
		a := kids[0]
		var b *variants.Variant
		if len(kids) > 1 {
			b = kids[1]
		}
		switch n.Op {
		case "pos":
			return a, nil
		case "neg":
			r, err := ops.Negative(a)
			if err != nil {
				o := fail(err)
				return nil, &o
			}
			return r, nil
		case "not":
			r, err := ops.Not(a)
			if err != nil {
				o := fail(err)
				return nil, &o
			}
			return r, nil
		case "isnull":
			return variants.VariantFromBoolean(a.IsNull()), nil
		case "isnotnull":
			return variants.VariantFromBoolean(!a.IsNull()), nil
		case "index":
			return bin(ops.GetElement, a, b)
		case "AND":
			return bin(ops.And, a, b)
		case "OR":
			return bin(ops.Or, a, b)
		case "XOR":
			return bin(ops.Xor, a, b)
		case "=":
			return bin(ops.Equal, a, b)
		case "<>", "!=":
			return bin(ops.NotEqual, a, b)
		case ">":
			return bin(ops.More, a, b)
		case "<":
			return bin(ops.Less, a, b)
		case ">=":
			return bin(ops.MoreEqual, a, b)
		case "<=":
			return bin(ops.LessEqual, a, b)
		case "+":
			return bin(ops.Add, a, b)
		case "-":
			return bin(ops.Sub, a, b)
		case "*":
			return bin(ops.Mul, a, b)
		case "/":
			return bin(ops.Div, a, b)
		case "%":
			return bin(ops.Mod, a, b)
		case "^":
			return bin(ops.Pow, a, b)
		case "<<":
			return bin(ops.Lsh, a, b)
		case ">>":
			return bin(ops.Rsh, a, b)
		case "IN":
			return bin(ops.In, b, a)
		case "NOTIN":
			r, o := bin(ops.In, b, a)
			if o != nil {
				return nil, o
			}
			if r.Type() != variants.Boolean {
				return r, nil // Null propagates
			}
			return variants.VariantFromBoolean(!r.AsBoolean()), nil
		case "LIKE", "NOTLIKE":
			return nil, &evalOutcome{unspec: "LIKE has no variant operation"}
		}
		panic("evalTree: unknown node " + n.Op)
	}
	var v *variants.Variant
	var o *evalOutcome
	if p := mon.Try(func() { v, o = ev(n) }); p != nil {
		return evalOutcome{unspec: "reference evaluation panicked inside a variant operation (C06): " + p.Msg}
	}
	if o != nil {
		return *o
	}
	return evalOutcome{val: snap(v)}
}

// runCalc sets and evaluates an expression on a fresh calculator.
type calcRun struct {
	setErr   error
	setPanic *mon.Panic
	program  []string
	varNames []string
	evalErr  error
	evalP    *mon.Panic
	result   *variants.Variant
	calc     *calculator.ExpressionCalculator
}

func runCalc(src string, e *env, ops variants.IVariantOperations, evaluate bool) *calcRun {
	r := &calcRun{}
	calc := calculator.NewExpressionCalculator()
	r.calc = calc
	if ops != nil {
		calc.SetVariantOperations(ops)
	}
	r.setPanic = mon.Try(func() { r.setErr = calc.SetExpression(src) })
	if r.setPanic != nil || r.setErr != nil {
		return r
	}
	r.program = gotProgram(calc.ResultTokens())
	for _, v := range calc.DefaultVariables().GetAll() {
		r.varNames = append(r.varNames, v.Name())
	}
	if evaluate {
		var vc variables.IVariableCollection
		if e != nil {
			vc = e.collection()
		}
		r.evalP = mon.Try(func() { r.result, r.evalErr = calc.EvaluateUsingVariables(vc) })
	}
	return r
}

func (r *calcRun) outcome() string {
	if r.evalP != nil {
		return "panic: " + r.evalP.Msg
	}
	if r.evalErr != nil {
		return fmt.Sprintf("error(%s: %v)", errCode(r.evalErr), r.evalErr)
	}
	return snap(r.result).String()
}
