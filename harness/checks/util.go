package checks

import (
	"sync"
	"sync/atomic"
)

type counter struct{ v int64 }

func (c *counter) add(n int64) { atomic.AddInt64(&c.v, n) }
func (c *counter) get() int64  { return atomic.LoadInt64(&c.v) }

var loopPrev sync.Map
var loopHookCalls, loopHookMulti counter

// strings over an alphabet, shortest first, in a fixed order.
func enumStrings(alphabet []string, maxLen int, emit func(parts []string)) {
	var rec func(prefix []string, left int)
	for l := 0; l <= maxLen; l++ {
		rec = func(prefix []string, left int) {
			if left == 0 {
				emit(prefix)
				return
			}
			for _, a := range alphabet {
				rec(append(prefix, a), left-1)
			}
		}
		rec(make([]string, 0, l), l)
	}
}

func joinParts(parts []string) string {
	n := 0
	for _, p := range parts {
		n += len(p)
	}
	b := make([]byte, 0, n)
	for _, p := range parts {
		b = append(b, p...)
	}
	return string(b)
}
