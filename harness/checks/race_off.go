//go:build !race

package checks

const raceBuild = false
