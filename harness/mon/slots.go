package mon

import (
	"encoding/binary"
	"fmt"
	"os"
	"os/exec"
	"path/filepath"
	"strconv"
	"sync/atomic"
	"syscall"
	"time"
	"unsafe"
)

// Crash slots: a shared memory-mapped file in which every worker goroutine
// records the case it is about to run.  Go fatal errors (stack exhaustion,
// concurrent map writes) and hangs cannot be recovered in-process; the
// supervisor reads the slots after the worker died or stalled, re-runs each
// in-flight case alone in a fresh process and reports the ones that reproduce.

const (
	slotHeader = 64
	slotSize   = 160 * 1024
	maxSlots   = 32
)

var slotMem []byte

func slotPath(cfg *Config) string {
	return filepath.Join(cfg.Root, ".build", "slots", cfg.Property+"-"+cfg.Tier+".bin")
}

func slotsOpen(cfg *Config) {
	p := os.Getenv("VERIF_SLOTS")
	if p == "" {
		return
	}
	f, err := os.OpenFile(p, os.O_RDWR, 0o644)
	if err != nil {
		return
	}
	defer f.Close()
	m, err := syscall.Mmap(int(f.Fd()), 0, slotHeader+maxSlots*slotSize, syscall.PROT_READ|syscall.PROT_WRITE, syscall.MAP_SHARED)
	if err != nil {
		return
	}
	slotMem = m
}

func slotFor(i int) []byte {
	if slotMem == nil || i >= maxSlots {
		return nil
	}
	return slotMem[slotHeader+i*slotSize : slotHeader+(i+1)*slotSize]
}

func slotEnter(s []byte, sub int, payload string) {
	if s == nil {
		return
	}
	n := len(payload)
	if n > slotSize-16 {
		n = slotSize - 16
	}
	binary.LittleEndian.PutUint32(s[4:], uint32(sub))
	binary.LittleEndian.PutUint32(s[8:], uint32(len(payload)))
	copy(s[16:], payload[:n])
	binary.LittleEndian.PutUint32(s[0:], 1)
	atomic.AddUint64((*uint64)(unsafe.Pointer(&slotMem[0])), 1)
}

func slotLeave(s []byte) {
	if s == nil {
		return
	}
	binary.LittleEndian.PutUint32(s[0:], 0)
}

func slotsDone() {
	if slotMem != nil {
		binary.LittleEndian.PutUint64(slotMem[8:], 1)
	}
}

// Tick lets long generator phases signal liveness.
func Tick() {
	if slotMem != nil {
		atomic.AddUint64((*uint64)(unsafe.Pointer(&slotMem[0])), 1)
	}
}

type suspect struct {
	sub     int
	payload string
	trunc   bool
}

func readSuspects(mem []byte) []suspect {
	var out []suspect
	for i := 0; i < maxSlots; i++ {
		s := mem[slotHeader+i*slotSize : slotHeader+(i+1)*slotSize]
		if binary.LittleEndian.Uint32(s[0:]) != 1 {
			continue
		}
		n := int(binary.LittleEndian.Uint32(s[8:]))
		tr := false
		if n > slotSize-16 {
			n = slotSize - 16
			tr = true
		}
		out = append(out, suspect{sub: int(binary.LittleEndian.Uint32(s[4:])), payload: string(s[16 : 16+n]), trunc: tr})
	}
	return out
}

func envInt(name string, def int) int {
	if v := os.Getenv(name); v != "" {
		if n, err := strconv.Atoi(v); err == nil {
			return n
		}
	}
	return def
}

// Supervise runs the worker as a child process and handles its death or stall.
func Supervise(cfg *Config, self string, args []string) int {
	t0 := time.Now()
	sp := slotPath(cfg)
	os.MkdirAll(filepath.Dir(sp), 0o755)
	os.MkdirAll(filepath.Join(cfg.Root, ".build", "logs"), 0o755)
	f, err := os.Create(sp)
	if err != nil {
		fmt.Fprintln(os.Stderr, err)
		return ExitInconclusive
	}
	f.Truncate(slotHeader + maxSlots*slotSize)
	mem, err := syscall.Mmap(int(f.Fd()), 0, slotHeader+maxSlots*slotSize, syscall.PROT_READ|syscall.PROT_WRITE, syscall.MAP_SHARED)
	f.Close()
	if err != nil {
		fmt.Fprintln(os.Stderr, err)
		return ExitInconclusive
	}
	defer os.Remove(sp)
	logPath := filepath.Join(cfg.Root, ".build", "logs", cfg.Property+"-"+cfg.Tier+".stderr")
	logf, _ := os.Create(logPath)
	cmd := exec.Command(self, args...)
	cmd.Stdout = os.Stdout
	cmd.Stderr = logf
	cmd.Env = append(os.Environ(), "VERIF_SLOTS="+sp)
	if err := cmd.Start(); err != nil {
		fmt.Fprintln(os.Stderr, err)
		return ExitInconclusive
	}
	done := make(chan error, 1)
	go func() { done <- cmd.Wait() }()
	stall := time.Duration(envInt("VERIF_STALL_S", 240)) * time.Second
	last := uint64(0)
	lastChange := time.Now()
	stalled := false
	var werr error
loop:
	for {
		select {
		case werr = <-done:
			break loop
		case <-time.After(500 * time.Millisecond):
			cur := atomic.LoadUint64((*uint64)(unsafe.Pointer(&mem[0])))
			if cur != last {
				last = cur
				lastChange = time.Now()
			} else if time.Since(lastChange) > stall {
				stalled = true
				cmd.Process.Signal(syscall.SIGQUIT)
				select {
				case werr = <-done:
				case <-time.After(10 * time.Second):
					cmd.Process.Kill()
					werr = <-done
				}
				break loop
			}
		}
	}
	logf.Close()
	code := 0
	if werr != nil {
		code = -1
		if ee, ok := werr.(*exec.ExitError); ok {
			code = ee.ExitCode()
		}
	}
	finished := binary.LittleEndian.Uint64(mem[8:]) == 1
	if !stalled && finished && (code == ExitHeld || code == ExitViolation || code == ExitInconclusive) {
		return code
	}
	// Abnormal end: worker died (fatal error, os.Exit from the runtime) or stalled.
	why := fmt.Sprintf("worker exited abnormally (exit code %d)", code)
	if stalled {
		why = fmt.Sprintf("worker made no progress for %v (same cases in flight)", stall)
	}
	fmt.Printf("SUPERVISOR %s: %s; stderr in %s\n", cfg.Property, why, logPath)
	suspects := readSuspects(mem)
	known := loadFindings(cfg.Root)
	subs := registry[cfg.Property](cfg)
	nviol := 0
	res := &runResult{sigCounts: map[string]int64{}}
	for i, s := range suspects {
		if s.sub >= len(subs) {
			continue
		}
		name := subs[s.sub].Name
		pf := filepath.Join(cfg.Root, ".build", "slots", fmt.Sprintf("%s-suspect-%d.bin", cfg.Property, i))
		os.WriteFile(pf, []byte(s.payload), 0o644)
		c := exec.Command(self, "replay-raw", cfg.Property, cfg.Tier, strconv.FormatUint(cfg.Seed, 10), name, pf)
		c.Env = os.Environ()
		out, _ := os.Create(pf + ".out")
		c.Stdout, c.Stderr = out, out
		c.Start()
		d := make(chan error, 1)
		go func() { d <- c.Wait() }()
		verdict := ""
		select {
		case e := <-d:
			if e == nil {
				verdict = "ok"
			} else if ee, ok := e.(*exec.ExitError); ok && ee.ExitCode() == ExitViolation {
				verdict = "violation reported by replay"
			} else {
				verdict = "process died: " + e.Error()
			}
		case <-time.After(time.Duration(envInt("VERIF_CASE_S", 60)) * time.Second):
			c.Process.Kill()
			<-d
			verdict = "did not terminate within the per-case watchdog"
		}
		out.Close()
		os.Remove(pf)
		os.Remove(pf + ".out")
		if verdict == "ok" {
			continue
		}
		sig := "crash-or-hang: " + verdict
		fl := &Failure{Sub: name, Signature: sig, Payload: s.payload, Detail: why + "; isolated re-run: " + verdict}
		if k := matchKnown(known, cfg.Property, fl); k != nil {
			fmt.Printf("KNOWN-FINDING: property=%s %s\n", cfg.Property, k.What)
			continue
		}
		nviol++
		path := writeReplay(cfg, 900+i, fl)
		fmt.Printf("VIOLATION property=%s replay=%s\n  sub=%s %s\n  input=%s\n", cfg.Property, path, name, sig, short(s.payload))
	}
	wall := time.Since(t0).Seconds()
	if nviol > 0 {
		res.reports = []*SubReport{{Name: "supervisor", Rule: "in-flight cases at the time the worker died, re-run in isolation", Evaluations: int64(len(suspects)), Distinct: int64(len(suspects)), Violations: int64(nviol), Samples: []any{"see replay files"}}}
		writeEvidence(cfg, res, "violated", int64(nviol), 0, wall, nil)
		return ExitViolation
	}
	fmt.Printf("INCONCLUSIVE property=%s %s and no in-flight case reproduced it in isolation\n", cfg.Property, why)
	res.inconclusive = []string{why}
	res.reports = []*SubReport{{Name: "supervisor", Rule: "worker died; nothing reproduced", Samples: []any{"none"}}}
	writeEvidence(cfg, res, "inconclusive", 0, 0, wall, nil)
	return ExitInconclusive
}

// ReplayRaw is the child entry used by the supervisor.
func ReplayRaw(cfg *Config, sub, payloadFile string) int {
	b, err := os.ReadFile(payloadFile)
	if err != nil {
		return ExitInconclusive
	}
	return replayPayload(cfg, sub, string(b), false)
}
