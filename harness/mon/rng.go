package mon

// Rng is a splitmix64 generator. Every random choice in the harness is drawn
// from one of these, seeded from VERIF_SEED and a fixed stream label, so a run
// is a pure function of (tree, tier, seed).
type Rng struct{ s uint64 }

func NewRng(seed uint64, stream string) *Rng {
	h := uint64(1469598103934665603)
	for i := 0; i < len(stream); i++ {
		h ^= uint64(stream[i])
		h *= 1099511628211
	}
	r := &Rng{s: seed*0x9E3779B97F4A7C15 ^ h}
	r.Next()
	return r
}

func (r *Rng) Next() uint64 {
	r.s += 0x9E3779B97F4A7C15
	z := r.s
	z = (z ^ (z >> 30)) * 0xBF58476D1CE4E5B9
	z = (z ^ (z >> 27)) * 0x94D049BB133111EB
	return z ^ (z >> 31)
}

// Intn returns a value in [0,n).
func (r *Rng) Intn(n int) int {
	if n <= 0 {
		return 0
	}
	return int(r.Next() % uint64(n))
}

func (r *Rng) Bool() bool { return r.Next()&1 == 1 }

// Chance returns true with probability num/den.
func (r *Rng) Chance(num, den int) bool { return r.Intn(den) < num }

func (r *Rng) Float() float64 { return float64(r.Next()>>11) / float64(1<<53) }

func Pick[T any](r *Rng, xs []T) T { return xs[r.Intn(len(xs))] }

func Hash64(s string) uint64 {
	h := uint64(1469598103934665603)
	for i := 0; i < len(s); i++ {
		h ^= uint64(s[i])
		h *= 1099511628211
	}
	return h
}
