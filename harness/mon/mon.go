// Package mon is the monitor plumbing shared by every check: a case runner that
// turns panics into observations, per-case crash slots readable by a supervisor
// after the worker died, three-valued verdicts, evidence and replay files, and
// the known-findings filter.
package mon

import (
	"encoding/base64"
	"encoding/json"
	"fmt"
	"os"
	"path/filepath"
	"regexp"
	"runtime"
	"runtime/debug"
	"sort"
	"strconv"
	"strings"
	"sync"
	"time"
	"unicode/utf8"
)

const (
	ExitHeld         = 0
	ExitViolation    = 1
	ExitInconclusive = 3
)

type Config struct {
	Property string
	Tier     string
	Seed     uint64
	Root     string // /verif
}

func (c *Config) Quick() bool { return c.Tier != "thorough" }

// N picks a tier dependent bound.
func (c *Config) N(quick, thorough int) int {
	if c.Quick() {
		return quick
	}
	return thorough
}

func (c *Config) Rng(stream string) *Rng { return NewRng(c.Seed, c.Property+"/"+stream) }

// Sub is one sub-check of a property: a generator of self-contained case
// payloads and an executor that drives the real code on one payload and judges
// the outcome.  Exec must depend on the payload only (so that a replay file is
// enough to re-run a case).
type Sub struct {
	Name          string
	Rule          string // how cases are generated and what makes one non-trivial
	Exhaustive    bool   // Gen enumerates a finite space completely
	DistinctByGen bool   // payloads are pairwise distinct by construction
	Serial        bool   // run on one goroutine (sub-checks that install global hooks)
	Batch         int    // payloads per hand-over to a shard (default 256); 1 spreads a handful of heavy payloads over all shards
	Floor         int    // fewer executed cases than this => inconclusive
	Gen           func(emit func(payload string))
	Exec          func(c *Case)
	// Sample renders a payload readably for the evidence file (default: the payload itself).
	Sample func(payload string) any
	// Final may inspect merged counters and declare the run inconclusive
	// (return a non-empty reason), e.g. when a hook never fired.
	Final func(r *SubReport) string
}

type Builder func(cfg *Config) []*Sub

var registry = map[string]Builder{}

func Register(property string, b Builder) { registry[property] = b }

func Properties() []string {
	var ps []string
	for p := range registry {
		ps = append(ps, p)
	}
	sort.Strings(ps)
	return ps
}

// Failure is one observed violation.
type Failure struct {
	Sub       string `json:"sub"`
	Signature string `json:"signature"`
	Payload   string `json:"-"`
	Detail    string `json:"detail"`
	Stack     string `json:"stack,omitempty"`
}

// Case is handed to Exec.
type Case struct {
	Payload string
	sub     *Sub
	sh      *shard
	nontriv bool
	failed  bool
}

func (c *Case) Fail(signature, detail string) {
	c.failed = true
	c.sh.fail(&Failure{Sub: c.sub.Name, Signature: signature, Payload: c.Payload, Detail: detail})
}

func (c *Case) Failf(signature, format string, args ...any) {
	c.Fail(signature, fmt.Sprintf(format, args...))
}

func (c *Case) FailPanic(callsite string, p *Panic) {
	c.failed = true
	c.sh.fail(&Failure{Sub: c.sub.Name, Signature: callsite + ": " + p.Sig(), Payload: c.Payload,
		Detail: "panic: " + p.Msg, Stack: p.Stack})
}

func (c *Case) Count(key string)         { c.sh.counts[key]++ }
func (c *Case) CountN(key string, n int) { c.sh.counts[key] += int64(n) }

// Unspecified counts a case (or part of one) that fell into a documented
// don't-care zone: only "no panic" was asserted there.
func (c *Case) Unspecified(zone string) { c.sh.counts["unspecified:"+zone]++ }

// NonTrivial marks the current case as non-trivial by the sub-check's rule.
func (c *Case) NonTrivial() { c.nontriv = true }

// SetPayload narrows the payload recorded with subsequent failures: a family
// payload (one emitted case standing for an enumerated set) is replaced by the
// member being executed, in the same syntax Exec accepts for replay.
func (c *Case) SetPayload(p string) { c.Payload = p }

// AddEvals accounts for members of a family case beyond the first;
// nontrivial of them were non-trivial and distinct by construction.
func (c *Case) AddEvals(n int, nontrivial int) {
	c.sh.evals += int64(n)
	c.sh.nontriv += int64(nontrivial)
}

// Mark records a distinct observed state/event (for coverage tables such as
// operator pairs or interleavings).
func (c *Case) Mark(table, key string) {
	m := c.sh.marks[table]
	if m == nil {
		m = map[string]int64{}
		c.sh.marks[table] = m
	}
	m[key]++
}

// Panic describes a recovered panic.
type Panic struct {
	Val   any
	Msg   string
	Site  string
	Stack string
}

var reNum = regexp.MustCompile(`0x[0-9a-fA-F]+|-?\d+`)

func (p *Panic) Sig() string {
	msg := p.Msg
	if i := strings.IndexByte(msg, '\n'); i >= 0 {
		msg = msg[:i]
	}
	if len(msg) > 120 {
		msg = msg[:120]
	}
	msg = reNum.ReplaceAllString(msg, "N")
	return "panic@" + p.Site + ": " + msg
}

// NoProgress is the sentinel the H1 loop monitor panics with.
type NoProgress struct{ Iter, Remaining int }

func (n NoProgress) Error() string { return "no-progress loop in tokenizer main loop" }

const repoPath = "pip-services3-expressions-gox"

func mkPanic(r any, stack []byte) *Panic {
	p := &Panic{Val: r, Stack: string(stack)}
	switch v := r.(type) {
	case error:
		p.Msg = v.Error()
	case string:
		p.Msg = v
	default:
		p.Msg = fmt.Sprint(v)
	}
	// first frame inside the repository under test
	lines := strings.Split(p.Stack, "\n")
	for _, l := range lines {
		if strings.HasPrefix(l, "\t") {
			continue
		}
		if i := strings.Index(l, repoPath+"/"); i >= 0 && !strings.Contains(l, "verifHook") {
			f := l[i+len(repoPath)+1:]
			if j := strings.LastIndex(f, "("); j > 0 {
				f = f[:j]
			}
			p.Site = f
			break
		}
	}
	if p.Site == "" {
		p.Site = "?"
	}
	return p
}

// Try runs f and reports a panic as a value.
func Try(f func()) (p *Panic) {
	defer func() {
		if r := recover(); r != nil {
			p = mkPanic(r, debug.Stack())
		}
	}()
	f()
	return nil
}

type shard struct {
	id       int
	slot     []byte
	counts   map[string]int64
	marks    map[string]map[string]int64
	failures []*Failure
	sigCount map[string]int64
	distinct map[uint64]struct{}
	evals    int64
	nontriv  int64
	samples  []string
	c        Case
}

const maxFailuresPerShard = 400
const maxDistinctPerShard = 1 << 20

func (sh *shard) fail(f *Failure) {
	sh.sigCount[f.Sub+"\x00"+f.Signature]++
	if sh.sigCount[f.Sub+"\x00"+f.Signature] <= 3 && len(sh.failures) < maxFailuresPerShard {
		sh.failures = append(sh.failures, f)
	}
}

func newShard(id int) *shard {
	return &shard{id: id, counts: map[string]int64{}, marks: map[string]map[string]int64{},
		sigCount: map[string]int64{}, distinct: map[uint64]struct{}{}}
}

func (sh *shard) run(sub *Sub, subIdx int, payload string) {
	slotEnter(sh.slot, subIdx, payload)
	c := &sh.c
	*c = Case{Payload: payload, sub: sub, sh: sh}
	func() {
		defer func() {
			if r := recover(); r != nil {
				c.FailPanic("exec", mkPanic(r, debug.Stack()))
			}
		}()
		sub.Exec(c)
	}()
	sh.evals++
	if c.nontriv {
		if sub.DistinctByGen {
			sh.nontriv++
		} else if len(sh.distinct) < maxDistinctPerShard {
			sh.distinct[Hash64(payload)] = struct{}{}
		}
	}
	if len(sh.samples) < 3 || (c.nontriv && len(sh.samples) < 6) {
		sh.samples = append(sh.samples, payload)
	}
	slotLeave(sh.slot)
}

// SubReport is the merged result of one sub-check.
type SubReport struct {
	Name        string                      `json:"name"`
	Rule        string                      `json:"rule"`
	Exhaustive  bool                        `json:"exhaustive"`
	Evaluations int64                       `json:"evaluations"`
	Distinct    int64                       `json:"distinct_nontrivial"`
	Counters    map[string]int64            `json:"counters,omitempty"`
	Tables      map[string]map[string]int64 `json:"-"`
	TableSizes  map[string]int              `json:"distinct_observed,omitempty"`
	Samples     []any                       `json:"samples"`
	Violations  int64                       `json:"violations"`
	Known       int64                       `json:"known_findings"`
	Note        string                      `json:"note,omitempty"`
	WallS       float64                     `json:"wall_s"`
}

func workers() int {
	if v := os.Getenv("VERIF_WORKERS"); v != "" {
		if n, err := strconv.Atoi(v); err == nil && n > 0 {
			return n
		}
	}
	n := runtime.NumCPU()
	if n > 16 {
		n = 16
	}
	return n
}

type runResult struct {
	reports      []*SubReport
	failures     []*Failure
	sigCounts    map[string]int64
	inconclusive []string
}

func runSubs(subs []*Sub, only string) *runResult {
	res := &runResult{sigCounts: map[string]int64{}}
	nw := workers()
	for idx, sub := range subs {
		if only != "" && sub.Name != only {
			continue
		}
		t0 := time.Now()
		n := nw
		if sub.Serial {
			n = 1
		}
		shards := make([]*shard, n)
		for i := range shards {
			shards[i] = newShard(i)
			shards[i].slot = slotFor(i)
		}
		batch := 256 // payloads handed to a shard at a time; sub-checks with few, heavy payloads set Batch to 1
		if sub.Batch > 0 {
			batch = sub.Batch
		}
		ch := make(chan []string, 4*n)
		var wg sync.WaitGroup
		for i := 0; i < n; i++ {
			wg.Add(1)
			go func(sh *shard) {
				defer wg.Done()
				for b := range ch {
					for _, p := range b {
						sh.run(sub, idx, p)
					}
				}
			}(shards[i])
		}
		cur := make([]string, 0, batch)
		var genPanic *Panic
		func() {
			defer func() {
				if r := recover(); r != nil {
					genPanic = mkPanic(r, debug.Stack())
				}
			}()
			sub.Gen(func(p string) {
				cur = append(cur, p)
				if len(cur) == batch {
					ch <- cur
					cur = make([]string, 0, batch)
				}
			})
		}()
		if len(cur) > 0 {
			ch <- cur
		}
		close(ch)
		wg.Wait()

		rep := &SubReport{Name: sub.Name, Rule: sub.Rule, Exhaustive: sub.Exhaustive,
			Counters: map[string]int64{}, Tables: map[string]map[string]int64{}, TableSizes: map[string]int{}}
		distinct := map[uint64]struct{}{}
		for _, sh := range shards {
			rep.Evaluations += sh.evals
			rep.Distinct += sh.nontriv
			for k, v := range sh.counts {
				rep.Counters[k] += v
			}
			for t, m := range sh.marks {
				if rep.Tables[t] == nil {
					rep.Tables[t] = map[string]int64{}
				}
				for k, v := range m {
					rep.Tables[t][k] += v
				}
			}
			for h := range sh.distinct {
				distinct[h] = struct{}{}
			}
			for k, v := range sh.sigCount {
				res.sigCounts[k] += v
			}
			res.failures = append(res.failures, sh.failures...)
			for _, s := range sh.samples {
				if len(rep.Samples) < 8 {
					if sub.Sample != nil {
						func() {
							defer func() {
								if recover() != nil {
									rep.Samples = append(rep.Samples, sampleJSON(s))
								}
							}()
							rep.Samples = append(rep.Samples, sub.Sample(s))
						}()
					} else {
						rep.Samples = append(rep.Samples, sampleJSON(s))
					}
				}
			}
		}
		rep.Distinct += int64(len(distinct))
		for t, m := range rep.Tables {
			rep.TableSizes[t] = len(m)
		}
		if genPanic != nil {
			res.inconclusive = append(res.inconclusive, sub.Name+": generator panicked: "+genPanic.Msg+"\n"+genPanic.Stack)
		}
		if rep.Evaluations < int64(sub.Floor) || rep.Evaluations == 0 {
			res.inconclusive = append(res.inconclusive,
				fmt.Sprintf("%s: only %d cases executed (floor %d)", sub.Name, rep.Evaluations, sub.Floor))
		}
		if sub.Final != nil {
			if why := sub.Final(rep); why != "" {
				res.inconclusive = append(res.inconclusive, sub.Name+": "+why)
			}
		}
		rep.WallS = time.Since(t0).Seconds()
		res.reports = append(res.reports, rep)
	}
	return res
}

func sampleJSON(s string) any {
	if utf8.ValidString(s) {
		if len(s) > 400 {
			return s[:400] + "…"
		}
		return s
	}
	return map[string]string{"base64": base64.StdEncoding.EncodeToString([]byte(s))}
}

// ---------------------------------------------------------------- findings

type Finding struct {
	Property  string `json:"property"`
	Status    string `json:"status"` // known | fixed
	Sub       string `json:"sub,omitempty"`
	Signature string `json:"signature"`
	What      string `json:"what"`
	Commit    string `json:"commit,omitempty"`
}

func loadFindings(root string) []Finding {
	b, err := os.ReadFile(filepath.Join(root, "known_findings.json"))
	if err != nil {
		return nil
	}
	var fs []Finding
	if err := json.Unmarshal(b, &fs); err != nil {
		fmt.Fprintf(os.Stderr, "known_findings.json unreadable: %v\n", err)
		return nil
	}
	return fs
}

func matchKnown(fs []Finding, prop string, f *Failure) *Finding {
	for i := range fs {
		k := &fs[i]
		if k.Status == "known" && k.Property == prop && k.Signature == f.Signature && (k.Sub == "" || k.Sub == f.Sub) {
			return k
		}
	}
	return nil
}

// ---------------------------------------------------------------- replay files

type ReplayFile struct {
	Property   string `json:"property"`
	Tier       string `json:"tier"`
	Seed       uint64 `json:"seed"`
	Sub        string `json:"sub"`
	Signature  string `json:"signature"`
	Detail     string `json:"detail"`
	Payload    string `json:"payload,omitempty"`
	PayloadB64 string `json:"payload_b64,omitempty"`
	Stack      string `json:"stack,omitempty"`
}

func writeReplay(cfg *Config, n int, f *Failure) string {
	dir := filepath.Join(cfg.Root, "replay")
	os.MkdirAll(dir, 0o755)
	rf := ReplayFile{Property: cfg.Property, Tier: cfg.Tier, Seed: cfg.Seed, Sub: f.Sub,
		Signature: f.Signature, Detail: f.Detail, Stack: f.Stack}
	if utf8.ValidString(f.Payload) {
		rf.Payload = f.Payload
	} else {
		rf.PayloadB64 = base64.StdEncoding.EncodeToString([]byte(f.Payload))
	}
	path := filepath.Join(dir, fmt.Sprintf("%s-%d.json", cfg.Property, n))
	b, _ := json.MarshalIndent(rf, "", " ")
	os.WriteFile(path, b, 0o644)
	return path
}

func (rf *ReplayFile) payload() string {
	if rf.PayloadB64 != "" {
		b, _ := base64.StdEncoding.DecodeString(rf.PayloadB64)
		return string(b)
	}
	return rf.Payload
}

// ---------------------------------------------------------------- evidence

type evidence struct {
	PropertyID  string         `json:"property_id"`
	Tier        string         `json:"tier"`
	Seed        uint64         `json:"seed"`
	Level       string         `json:"level"`
	Coverage    map[string]any `json:"coverage"`
	Assumptions []string       `json:"assumptions,omitempty"`
	WallS       float64        `json:"wall_s"`
	Violations  int64          `json:"violations"`
	Verdict     string         `json:"verdict"`
}

var Assumptions = map[string][]string{}

func writeEvidence(cfg *Config, res *runResult, verdict string, violations, known int64, wall float64, extra map[string]any) {
	cov := map[string]any{}
	var evals, distinct int64
	var rules []string
	var samples []any
	allEx := len(res.reports) > 0
	for _, r := range res.reports {
		evals += r.Evaluations
		distinct += r.Distinct
		rules = append(rules, r.Name+": "+r.Rule)
		for i, s := range r.Samples {
			if i < 3 {
				samples = append(samples, map[string]any{"sub": r.Name, "case": s})
			}
		}
		if !r.Exhaustive {
			allEx = false
		}
	}
	cov["evaluations"] = evals
	cov["distinct_nontrivial"] = distinct
	cov["rule"] = strings.Join(rules, " || ")
	cov["samples"] = samples
	cov["exhaustive"] = allEx
	cov["subchecks"] = res.reports
	cov["known_findings_reported"] = known
	if len(res.inconclusive) > 0 {
		cov["inconclusive_reasons"] = res.inconclusive
	}
	for k, v := range extra {
		cov[k] = v
	}
	ev := evidence{PropertyID: cfg.Property, Tier: cfg.Tier, Seed: cfg.Seed, Level: "exploration",
		Coverage: cov, Assumptions: Assumptions[cfg.Property], WallS: wall, Violations: violations, Verdict: verdict}
	if ev.Tier != "quick" && ev.Tier != "thorough" {
		ev.Tier = "quick"
	}
	dir := filepath.Join(cfg.Root, "evidence")
	os.MkdirAll(dir, 0o755)
	b, _ := json.MarshalIndent(ev, "", " ")
	tmp := filepath.Join(dir, cfg.Property+".json.tmp")
	os.WriteFile(tmp, b, 0o644)
	os.Rename(tmp, filepath.Join(dir, cfg.Property+".json"))
}

// Extra lets a check add property-level coverage keys (tables, hook counters).
var Extra = map[string]any{}
var extraMu sync.Mutex

func SetExtra(k string, v any) {
	extraMu.Lock()
	Extra[k] = v
	extraMu.Unlock()
}

// ---------------------------------------------------------------- worker entry

// RunWorker executes every sub-check of a property in this process.
func RunWorker(cfg *Config, only string) int {
	b := registry[cfg.Property]
	if b == nil {
		fmt.Fprintf(os.Stderr, "no check registered for %s\n", cfg.Property)
		return ExitInconclusive
	}
	t0 := time.Now()
	slotsOpen(cfg)
	subs := b(cfg)
	res := runSubs(subs, only)
	return conclude(cfg, res, time.Since(t0).Seconds())
}

func conclude(cfg *Config, res *runResult, wall float64) int {
	known := loadFindings(cfg.Root)
	// deterministic order: by sub, signature, payload length, payload
	sort.SliceStable(res.failures, func(i, j int) bool {
		a, b := res.failures[i], res.failures[j]
		if a.Sub != b.Sub {
			return a.Sub < b.Sub
		}
		if a.Signature != b.Signature {
			return a.Signature < b.Signature
		}
		if len(a.Payload) != len(b.Payload) {
			return len(a.Payload) < len(b.Payload)
		}
		return a.Payload < b.Payload
	})
	var nViol, nKnown int64
	seen := map[string]bool{}
	nfile := 0
	perSub := map[string]*SubReport{}
	for _, r := range res.reports {
		perSub[r.Name] = r
	}
	for _, f := range res.failures {
		key := f.Sub + "\x00" + f.Signature
		cnt := res.sigCounts[key]
		if seen[key] {
			continue
		}
		seen[key] = true
		if k := matchKnown(known, cfg.Property, f); k != nil {
			nKnown += cnt
			if r := perSub[f.Sub]; r != nil {
				r.Known += cnt
			}
			fmt.Printf("KNOWN-FINDING: property=%s %s [%s; %d cases, e.g. %s]\n", cfg.Property, k.What, f.Signature, cnt, short(f.Payload))
			continue
		}
		nViol += cnt
		if r := perSub[f.Sub]; r != nil {
			r.Violations += cnt
		}
		if nfile < 40 {
			nfile++
			path := writeReplay(cfg, nfile, f)
			fmt.Printf("VIOLATION property=%s replay=%s\n", cfg.Property, path)
			fmt.Printf("  sub=%s signature=%q cases=%d\n  input=%s\n  %s\n", f.Sub, f.Signature, cnt, short(f.Payload), indent(f.Detail))
		}
	}
	verdict := "held"
	code := ExitHeld
	if nViol > 0 {
		verdict = "violated"
		code = ExitViolation
	} else if len(res.inconclusive) > 0 {
		verdict = "inconclusive"
		code = ExitInconclusive
		for _, why := range res.inconclusive {
			fmt.Printf("INCONCLUSIVE property=%s %s\n", cfg.Property, why)
		}
	}
	writeEvidence(cfg, res, verdict, nViol, nKnown, wall, Extra)
	var evals int64
	for _, r := range res.reports {
		evals += r.Evaluations
		fmt.Printf("  [%s/%s] %-28s cases=%-9d nontrivial=%-8d viol=%d known=%d %.1fs\n", cfg.Property, cfg.Tier, r.Name, r.Evaluations, r.Distinct, r.Violations, r.Known, r.WallS)
	}
	fmt.Printf("%s %s seed=%d: %s (%d cases, %d violations, %d known, %.1fs)\n", cfg.Property, cfg.Tier, cfg.Seed, verdict, evals, nViol, nKnown, wall)
	slotsDone()
	return code
}

func short(s string) string {
	q := strconv.QuoteToASCII(s)
	if len(q) > 300 {
		q = q[:300] + "…"
	}
	return q
}

func indent(s string) string { return strings.ReplaceAll(s, "\n", "\n  ") }

// RunReplay re-executes the case recorded in a replay file.
func RunReplay(root, path string) int {
	b, err := os.ReadFile(path)
	if err != nil {
		fmt.Fprintln(os.Stderr, err)
		return ExitInconclusive
	}
	var rf ReplayFile
	if err := json.Unmarshal(b, &rf); err != nil {
		fmt.Fprintln(os.Stderr, err)
		return ExitInconclusive
	}
	cfg := &Config{Property: rf.Property, Tier: rf.Tier, Seed: rf.Seed, Root: root}
	return replayPayload(cfg, rf.Sub, rf.payload(), true)
}

func replayPayload(cfg *Config, subName, payload string, verbose bool) int {
	bld := registry[cfg.Property]
	if bld == nil {
		return ExitInconclusive
	}
	known := loadFindings(cfg.Root)
	for idx, sub := range bld(cfg) {
		if sub.Name != subName {
			continue
		}
		sh := newShard(0)
		sh.run(sub, idx, payload)
		code := ExitHeld
		for _, f := range sh.failures {
			if k := matchKnown(known, cfg.Property, f); k != nil {
				fmt.Printf("KNOWN-FINDING: property=%s %s [%s]\n", cfg.Property, k.What, f.Signature)
				continue
			}
			code = ExitViolation
			fmt.Printf("VIOLATION property=%s replay=(replayed) sub=%s signature=%q\n  input=%s\n  %s\n", cfg.Property, f.Sub, f.Signature, short(f.Payload), indent(f.Detail))
			if verbose && f.Stack != "" {
				fmt.Println(f.Stack)
			}
		}
		if code == ExitHeld {
			fmt.Printf("replay: case held (%s/%s)\n", cfg.Property, subName)
		}
		return code
	}
	fmt.Fprintf(os.Stderr, "no sub-check %q in %s\n", subName, cfg.Property)
	return ExitInconclusive
}
