package model

import (
	"fmt"
	"strings"
)

// Expression grammar G, from the precedence table of properties C01/C02:
//
//	L0 -> L1 {(AND|OR|XOR) L1}
//	L1 -> [NOT] L2
//	L2 -> L3 {(=|<>|!=|>|<|>=|<=) L3}
//	L3 -> L4 {(+|-|LIKE) L4 | NOT LIKE L4 | IS NULL | IS NOT NULL | NOT IN L4}
//	L4 -> L5 {(*|/|%) L5}
//	L5 -> L6 {(^|IN|<<|>>) L6}
//	L6 -> [+|-] P ['[' L0 ']']
//	P  -> const | id | '(' L0 ')' | id '(' [L0 {',' L0}] ')'
//
// Tokens are represented by ETok; the parser below is tabular (memoised by
// nonterminal and span, trying every split) so it shares no control structure
// with a recursive-descent parser.

type ETok struct {
	Kind string // "const" "id" "op" "kw" "(" ")" "[" "]" "," "bad"
	Text string // spelling (operators and keywords in canonical upper case)
	Lit  string // literal source text for const / id
}

// Node is a syntax tree node.
type Node struct {
	Op   string  // "const" "var" "call" "neg" "pos" "not" "isnull" "isnotnull" "index" or a binary operator: AND OR XOR = <> > < >= <= + - LIKE NOTLIKE NOTIN * / % ^ IN << >>
	Lit  string  // for const: literal text; for var/call: name
	Kids []*Node // operands / arguments
	Par  int     // number of redundant parentheses around this node in the source (parser) or to print (generator)
}

var binLevel = map[string]int{"AND": 0, "OR": 0, "XOR": 0, "=": 2, "<>": 2, "!=": 2, ">": 2, "<": 2, ">=": 2, "<=": 2,
	"+": 3, "-": 3, "LIKE": 3, "NOTLIKE": 3, "NOTIN": 3, "*": 4, "/": 4, "%": 4, "^": 5, "IN": 5, "<<": 5, ">>": 5}

// Level is the grammar level at which a node is produced.
func (n *Node) Level() int {
	switch n.Op {
	case "const", "var", "call":
		return 7
	case "neg", "pos", "index":
		return 6
	case "not":
		return 1
	case "isnull", "isnotnull":
		return 3
	}
	return binLevel[n.Op]
}

func IsBinary(op string) bool { _, ok := binLevel[op]; return ok }

// ---------------------------------------------------------------- tabular parser

type spanKey struct {
	nt   int
	i, j int
}

type EParser struct {
	toks    []ETok
	memo    map[spanKey]*Node
	done    map[spanKey]bool
	Lenient bool // also accept a trailing comma before ')' in argument lists
}

const (
	ntL0 = iota
	ntL1
	ntL2
	ntL3
	ntL4
	ntL5
	ntL6
	ntU
	ntP
	ntArgs
)

// ParseTokens returns the unique syntax tree of toks, or nil when toks is not a sentence of G.
func ParseTokens(toks []ETok, lenient bool) *Node {
	p := &EParser{toks: toks, memo: map[spanKey]*Node{}, done: map[spanKey]bool{}, Lenient: lenient}
	if len(toks) == 0 {
		return nil
	}
	return p.parse(ntL0, 0, len(toks))
}

func (p *EParser) is(k int, kind, text string) bool {
	if k < 0 || k >= len(p.toks) {
		return false
	}
	t := p.toks[k]
	return t.Kind == kind && (text == "" || t.Text == text)
}

func (p *EParser) opIn(k int, set ...string) string {
	if k < 0 || k >= len(p.toks) {
		return ""
	}
	t := p.toks[k]
	if t.Kind != "op" && t.Kind != "kw" {
		return ""
	}
	for _, s := range set {
		if t.Text == s {
			return s
		}
	}
	return ""
}

func (p *EParser) parse(nt, i, j int) *Node {
	if i >= j && nt != ntArgs {
		return nil
	}
	k := spanKey{nt, i, j}
	if p.done[k] {
		return p.memo[k]
	}
	p.done[k] = true
	n := p.parse1(nt, i, j)
	p.memo[k] = n
	return n
}

func (p *EParser) leftAssoc(nt, sub, i, j int, ops ...string) *Node {
	if n := p.parse(sub, i, j); n != nil {
		return n
	}
	for k := j - 2; k > i; k-- {
		if op := p.opIn(k, ops...); op != "" {
			if r := p.parse(sub, k+1, j); r != nil {
				if l := p.parse(nt, i, k); l != nil {
					return &Node{Op: op, Kids: []*Node{l, r}}
				}
			}
		}
	}
	return nil
}

func (p *EParser) parse1(nt, i, j int) *Node {
	switch nt {
	case ntL0:
		return p.leftAssoc(ntL0, ntL1, i, j, "AND", "OR", "XOR")
	case ntL1:
		if n := p.parse(ntL2, i, j); n != nil {
			return n
		}
		if p.opIn(i, "NOT") != "" {
			if x := p.parse(ntL2, i+1, j); x != nil {
				return &Node{Op: "not", Kids: []*Node{x}}
			}
		}
		return nil
	case ntL2:
		return p.leftAssoc(ntL2, ntL3, i, j, "=", "<>", "!=", ">", "<", ">=", "<=")
	case ntL3:
		if n := p.parse(ntL4, i, j); n != nil {
			return n
		}
		// postfix tests
		if j-i >= 3 && p.opIn(j-2, "IS") != "" && p.opIn(j-1, "NULL") != "" {
			if l := p.parse(ntL3, i, j-2); l != nil {
				return &Node{Op: "isnull", Kids: []*Node{l}}
			}
		}
		if j-i >= 4 && p.opIn(j-3, "IS") != "" && p.opIn(j-2, "NOT") != "" && p.opIn(j-1, "NULL") != "" {
			if l := p.parse(ntL3, i, j-3); l != nil {
				return &Node{Op: "isnotnull", Kids: []*Node{l}}
			}
		}
		for k := j - 2; k > i; k-- {
			if op := p.opIn(k, "+", "-", "LIKE"); op != "" {
				if r := p.parse(ntL4, k+1, j); r != nil {
					if l := p.parse(ntL3, i, k); l != nil {
						return &Node{Op: op, Kids: []*Node{l, r}}
					}
				}
			}
			if p.opIn(k, "NOT") != "" && k+2 < j {
				op := ""
				if p.opIn(k+1, "LIKE") != "" {
					op = "NOTLIKE"
				} else if p.opIn(k+1, "IN") != "" {
					op = "NOTIN"
				}
				if op != "" {
					if r := p.parse(ntL4, k+2, j); r != nil {
						if l := p.parse(ntL3, i, k); l != nil {
							return &Node{Op: op, Kids: []*Node{l, r}}
						}
					}
				}
			}
		}
		return nil
	case ntL4:
		return p.leftAssoc(ntL4, ntL5, i, j, "*", "/", "%")
	case ntL5:
		return p.leftAssoc(ntL5, ntL6, i, j, "^", "IN", "<<", ">>")
	case ntL6:
		if n := p.parse(ntU, i, j); n != nil {
			return n
		}
		if op := p.opIn(i, "+", "-"); op != "" {
			if x := p.parse(ntU, i+1, j); x != nil {
				return &Node{Op: map[string]string{"+": "pos", "-": "neg"}[op], Kids: []*Node{x}}
			}
		}
		return nil
	case ntU:
		if n := p.parse(ntP, i, j); n != nil {
			return n
		}
		if p.is(j-1, "]", "") {
			for k := i + 1; k < j-2; k++ {
				if p.is(k, "[", "") {
					if b := p.parse(ntP, i, k); b != nil {
						if e := p.parse(ntL0, k+1, j-1); e != nil {
							return &Node{Op: "index", Kids: []*Node{b, e}}
						}
					}
				}
			}
		}
		return nil
	case ntP:
		if j == i+1 {
			if p.is(i, "const", "") {
				return &Node{Op: "const", Lit: p.toks[i].Lit}
			}
			if p.is(i, "id", "") {
				return &Node{Op: "var", Lit: p.toks[i].Lit}
			}
			return nil
		}
		if p.is(i, "(", "") && p.is(j-1, ")", "") {
			if x := p.parse(ntL0, i+1, j-1); x != nil {
				c := *x
				c.Par++
				return &c
			}
		}
		if p.is(i, "id", "") && p.is(i+1, "(", "") && p.is(j-1, ")", "") {
			if a := p.parse(ntArgs, i+2, j-1); a != nil {
				return &Node{Op: "call", Lit: p.toks[i].Lit, Kids: a.Kids}
			}
		}
		return nil
	case ntArgs:
		if i == j {
			return &Node{Op: "args"}
		}
		if x := p.parse(ntL0, i, j); x != nil {
			return &Node{Op: "args", Kids: []*Node{x}}
		}
		for k := j - 1; k > i; k-- {
			if p.is(k, ",", "") {
				if k+1 == j {
					if p.Lenient {
						if l := p.parse(ntArgs, i, k); l != nil && len(l.Kids) > 0 {
							return l
						}
					}
					continue
				}
				if r := p.parse(ntL0, k+1, j); r != nil {
					if l := p.parse(ntArgs, i, k); l != nil && len(l.Kids) > 0 {
						return &Node{Op: "args", Kids: append(append([]*Node{}, l.Kids...), r)}
					}
				}
			}
		}
		return nil
	}
	return nil
}

// ---------------------------------------------------------------- post-order program

// RPN returns the expected compiled program as a list of "Type" or "Type:value"
// strings.  signFirst selects the order in which a sign and an index on the
// same primary are applied (the statement leaves it open).
func RPN(n *Node, signFirst bool) []string {
	var out []string
	var emit func(n *Node)
	emit = func(n *Node) {
		switch n.Op {
		case "const":
			out = append(out, "Constant:"+n.Lit)
		case "var":
			out = append(out, "Variable:"+n.Lit)
		case "call":
			for _, k := range n.Kids {
				emit(k)
			}
			out = append(out, fmt.Sprintf("Constant:%d", len(n.Kids)), "Function:"+n.Lit)
		case "pos":
			emit(n.Kids[0])
		case "neg":
			if x := n.Kids[0]; signFirst && x.Op == "index" && x.Par == 0 {
				emit(x.Kids[0])
				out = append(out, "Unary")
				emit(x.Kids[1])
				out = append(out, "Element")
				return
			}
			emit(n.Kids[0])
			out = append(out, "Unary")
		case "not":
			emit(n.Kids[0])
			out = append(out, "Not")
		case "isnull":
			emit(n.Kids[0])
			out = append(out, "IsNull")
		case "isnotnull":
			emit(n.Kids[0])
			out = append(out, "IsNotNull")
		case "index":
			emit(n.Kids[0])
			emit(n.Kids[1])
			out = append(out, "Element")
		default:
			emit(n.Kids[0])
			emit(n.Kids[1])
			out = append(out, rpnName[n.Op])
		}
	}
	emit(n)
	return out
}

var rpnName = map[string]string{"AND": "And", "OR": "Or", "XOR": "Xor", "=": "Equal", "<>": "NotEqual", "!=": "NotEqual", ">": "More", "<": "Less", ">=": "EqualMore", "<=": "EqualLess",
	"+": "Plus", "-": "Minus", "LIKE": "Like", "NOTLIKE": "NotLike", "NOTIN": "NotIn", "*": "Star", "/": "Slash", "%": "Procent", "^": "Power", "IN": "In", "<<": "ShiftLeft", ">>": "ShiftRight"}

// HasSignOverIndex reports the construct whose evaluation order the statement leaves open.
func HasSignOverIndex(n *Node) bool {
	if n.Op == "neg" && n.Kids[0].Op == "index" && n.Kids[0].Par == 0 {
		return true
	}
	for _, k := range n.Kids {
		if HasSignOverIndex(k) {
			return true
		}
	}
	return false
}

func (n *Node) Has(op string) bool {
	if n.Op == op {
		return true
	}
	for _, k := range n.Kids {
		if k.Has(op) {
			return true
		}
	}
	return false
}

func (n *Node) CountOps() int {
	c := 0
	if n.Op != "const" && n.Op != "var" {
		c = 1
	}
	for _, k := range n.Kids {
		c += k.CountOps()
	}
	return c
}

// ---------------------------------------------------------------- printer

// PrintOptions control the concrete syntax; Rnd returns a number in [0,n).
type PrintOptions struct {
	Full     bool          // parenthesise every operand
	Extra    func() bool   // add a redundant pair of parentheses here?
	Space    func() string // separator between tokens ("" allowed only where tokens cannot merge: the printer always puts at least one blank between two word-like tokens)
	Keyword  func(string) string
	Comments func() string // "" or a /* */ comment to drop between tokens
}

// Tokens renders the tree to a token list (each entry is one source token).
func Tokens(n *Node, o *PrintOptions) []string {
	var out []string
	var pr func(n *Node, minLevel int, forceP bool)
	kw := func(s string) string {
		if o != nil && o.Keyword != nil {
			return o.Keyword(s)
		}
		return s
	}
	pr = func(n *Node, minLevel int, forceP bool) {
		paren := n.Level() < minLevel || forceP
		if o != nil && o.Full && n.Level() < 7 {
			paren = true
		}
		extra := 0
		if o != nil && o.Extra != nil && o.Extra() {
			extra = 1
		}
		np := extra
		if paren {
			np++
		}
		for i := 0; i < np; i++ {
			out = append(out, "(")
		}
		switch n.Op {
		case "const", "var":
			out = append(out, n.Lit)
		case "call":
			out = append(out, n.Lit, "(")
			for i, k := range n.Kids {
				if i > 0 {
					out = append(out, ",")
				}
				pr(k, 0, false)
			}
			out = append(out, ")")
		case "neg", "pos":
			out = append(out, map[string]string{"neg": "-", "pos": "+"}[n.Op])
			// operand must be a primary; an index under a sign is the open case and is parenthesised
			pr(n.Kids[0], 7, false)
		case "index":
			pr(n.Kids[0], 7, false)
			out = append(out, "[")
			pr(n.Kids[1], 0, false)
			out = append(out, "]")
		case "not":
			out = append(out, kw("NOT"))
			pr(n.Kids[0], 2, false)
		case "isnull":
			pr(n.Kids[0], 3, false)
			out = append(out, kw("IS"), kw("NULL"))
		case "isnotnull":
			pr(n.Kids[0], 3, false)
			out = append(out, kw("IS"), kw("NOT"), kw("NULL"))
		default:
			lv := n.Level()
			right := lv + 1
			if lv == 0 {
				right = 1
			}
			pr(n.Kids[0], lv, false)
			switch n.Op {
			case "NOTLIKE":
				out = append(out, kw("NOT"), kw("LIKE"))
			case "NOTIN":
				out = append(out, kw("NOT"), kw("IN"))
			case "AND", "OR", "XOR", "LIKE", "IN":
				out = append(out, kw(n.Op))
			default:
				out = append(out, n.Op)
			}
			pr(n.Kids[1], right, false)
		}
		for i := 0; i < np; i++ {
			out = append(out, ")")
		}
	}
	pr(n, 0, false)
	return out
}

func wordLike(s string) bool {
	if s == "" {
		return false
	}
	c := s[0]
	return c == '_' || c == '\'' || c == '"' || c == '.' || (c >= '0' && c <= '9') || (c >= 'a' && c <= 'z') || (c >= 'A' && c <= 'Z') || c >= 0x80
}

// Join renders tokens to source text with the separators of o.
func Join(toks []string, o *PrintOptions) string {
	var b strings.Builder
	for i, t := range toks {
		if i > 0 {
			sep := " "
			if o != nil && o.Space != nil {
				sep = o.Space()
				prev := toks[i-1]
				if sep == "" && (wordLike(prev) && wordLike(t) || mergeRisk(prev, t)) {
					sep = " "
				}
			}
			if o != nil && o.Comments != nil {
				if c := o.Comments(); c != "" {
					sep = sep + c + " "
				}
			}
			b.WriteString(sep)
		}
		b.WriteString(t)
	}
	return b.String()
}

// symbol pairs that would merge into another token when written without a blank
func mergeRisk(a, b string) bool {
	if a == "" || b == "" {
		return true
	}
	x, y := a[len(a)-1], b[0]
	switch string([]byte{x, y}) {
	case "<=", ">=", "<>", "!=", ">>", "<<", "/*", "//":
		return true
	}
	if x == '.' || y == '.' {
		return true
	}
	if (x >= '0' && x <= '9') && (y == 'e' || y == 'E') {
		return true
	}
	if x == '\'' && y == '\'' || x == '"' && y == '"' {
		return true
	}
	return false
}
