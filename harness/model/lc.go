// Package model holds the reference models the monitors compare the real code
// against.  They are written from the property statements, not from the code.
package model

// LCTable returns, for every k in 0..len(content), the (line, column) a fresh
// forward scan reports after the first k characters: LF always starts a new
// line, CR starts one unless its neighbour (before or after) is LF, a line
// start resets the column to 0 and every other character advances the column.
func LCTable(content []rune) (lines []int, cols []int) {
	n := len(content)
	lines = make([]int, n+1)
	cols = make([]int, n+1)
	line, col := 1, 0
	lines[0], cols[0] = line, col
	for i := 0; i < n; i++ {
		ch := content[i]
		switch ch {
		case '\n':
			line++
			col = 0
		case '\r':
			prevLF := i > 0 && content[i-1] == '\n'
			nextLF := i+1 < n && content[i+1] == '\n'
			if !prevLF && !nextLF {
				line++
				col = 0
			}
		default:
			col++
		}
		lines[i+1], cols[i+1] = line, col
	}
	return
}
