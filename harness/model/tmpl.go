package model

import (
	"strings"
)

// Template syntax trees and the reference rendering semantics of property C10.

type TNode struct {
	Kind   string    `json:"k"`           // "text" "var" "comment" "section"
	Text   string    `json:"t,omitempty"` // text, variable / section name, comment body
	Triple bool      `json:"3,omitempty"` // triple braces (escaped variable; allowed on every tag)
	Inv    bool      `json:"i,omitempty"` // inverted section
	Open   string    `json:"o,omitempty"` // spelling of the section opening: "#", "#if", "^", "#unless"
	Close  string    `json:"c,omitempty"` // spelling of the section end: "name", "if", "unless"
	Pad    [3]string `json:"p"`           // blanks inside the tag: after the braces/operator, before the name, before the closing braces
	Pad2   [3]string `json:"q"`           // the same for the section end tag
	Body   []*TNode  `json:"b,omitempty"`
}

func braces(triple bool) (string, string) {
	if triple {
		return "{{{", "}}}"
	}
	return "{{", "}}"
}

// Seg is one piece of the concrete syntax: literal text or one tag.
type Seg struct {
	Kind  string // "text" "var" "comment" "open" "end"
	Text  string
	Depth int // section nesting depth at which the segment sits
	Node  *TNode
}

// PrintSegments renders the concrete syntax of a template tree as segments.
func PrintSegments(nodes []*TNode) []Seg {
	var out []Seg
	var pr func(ns []*TNode, depth int)
	pr = func(ns []*TNode, depth int) {
		for _, n := range ns {
			o, c := braces(n.Triple)
			switch n.Kind {
			case "text":
				out = append(out, Seg{"text", n.Text, depth, n})
			case "var":
				out = append(out, Seg{"var", o + n.Pad[0] + n.Text + n.Pad[2] + c, depth, n})
			case "comment":
				out = append(out, Seg{"comment", o + n.Pad[0] + "!" + n.Text + c, depth, n})
			case "section":
				op, kw := n.Open[:1], n.Open[1:]
				t := o + n.Pad[0] + op + n.Pad[1]
				if kw != "" {
					t += kw + " " + n.Pad[1]
				}
				out = append(out, Seg{"open", t + n.Text + n.Pad[2] + c, depth, n})
				pr(n.Body, depth+1)
				end := n.Text
				if n.Close != "name" {
					end = n.Close
				}
				out = append(out, Seg{"end", o + n.Pad2[0] + "/" + n.Pad2[1] + end + n.Pad2[2] + c, depth, n})
			}
		}
	}
	pr(nodes, 0)
	return out
}

func JoinSegments(segs []Seg) string {
	var b strings.Builder
	for _, s := range segs {
		b.WriteString(s.Text)
	}
	return b.String()
}

// PrintTemplate renders the concrete syntax of a template tree.
func PrintTemplate(nodes []*TNode) string { return JoinSegments(PrintSegments(nodes)) }

// EscapeValue is the JSON-style escaping of an escaped variable's value.
func EscapeValue(v string) string {
	var b strings.Builder
	for _, r := range v {
		switch r {
		case '\\':
			b.WriteString(`\\`)
		case '"':
			b.WriteString(`\"`)
		case '/':
			b.WriteString(`\/`)
		case '\b':
			b.WriteString(`\b`)
		case '\f':
			b.WriteString(`\f`)
		case '\n':
			b.WriteString(`\n`)
		case '\r':
			b.WriteString(`\r`)
		case '\t':
			b.WriteString(`\t`)
		default:
			b.WriteRune(r)
		}
	}
	return b.String()
}

// LookupCI finds a key case-insensitively; ok is false when absent.
func LookupCI(vars map[string]string, name string) (string, bool) {
	ln := strings.ToLower(name)
	for k, v := range vars {
		if strings.ToLower(k) == ln {
			return v, true
		}
	}
	return "", false
}

// RenderTemplate is the reference semantics: text verbatim; a variable is
// replaced by its value or by nothing; an escaped variable by its escaped
// value; a section's body iff its variable is present and non-empty; an
// inverted section's body iff it is not.
func RenderTemplate(nodes []*TNode, vars map[string]string) string {
	var b strings.Builder
	var rn func(ns []*TNode)
	rn = func(ns []*TNode) {
		for _, n := range ns {
			switch n.Kind {
			case "text":
				b.WriteString(n.Text)
			case "var":
				if v, ok := LookupCI(vars, n.Text); ok {
					if n.Triple {
						b.WriteString(EscapeValue(v))
					} else {
						b.WriteString(v)
					}
				}
			case "section":
				v, ok := LookupCI(vars, n.Text)
				defined := ok && v != ""
				if defined != n.Inv {
					rn(n.Body)
				}
			}
		}
	}
	rn(nodes)
	return b.String()
}

// TemplateNames lists variable and section names in order of first occurrence
// (case-insensitively merged, lower-cased).
func TemplateNames(nodes []*TNode) []string {
	var out []string
	seen := map[string]bool{}
	var walk func(ns []*TNode)
	walk = func(ns []*TNode) {
		for _, n := range ns {
			if n.Kind == "var" || n.Kind == "section" {
				l := strings.ToLower(n.Text)
				if !seen[l] {
					seen[l] = true
					out = append(out, l)
				}
			}
			if n.Kind == "section" {
				walk(n.Body)
			}
		}
	}
	walk(nodes)
	return out
}

// ---------------------------------------------------------------- lexeme classifier

// Verdicts of ClassifyLexemes.
const (
	TWellFormed  = "well-formed"
	TMalformed   = "malformed"
	TUnspecified = "unspecified"
)

func isBrace(s string) bool { return s == "{{" || s == "{{{" || s == "}}" || s == "}}}" }
func isWordLex(s string) bool {
	return s != "" && !isBrace(s) && s != "#" && s != "^" && s != "/" && s != "!"
}

// ClassifyLexemes decides, for a sequence of template lexemes ({{ {{{ }} }}} # ^
// / ! if unless and words), whether the statement of C10 determines the
// accept/reject decision.  It returns the verdict, the reason for a malformed
// verdict, and for well-formed input the tree.  Everything the statement does
// not settle (brace runs that would merge, tags with two names, empty tags,
// sections named if/unless, operators in odd places ...) is "unspecified".
func ClassifyLexemes(lex []string) (string, string, []*TNode) {
	// adjacent brace runs merge or form empty tags, except a close followed by an open
	for i := 0; i+1 < len(lex); i++ {
		if isBrace(lex[i]) && isBrace(lex[i+1]) && !(strings.HasPrefix(lex[i], "}") && strings.HasPrefix(lex[i+1], "{")) {
			return TUnspecified, "adjacent brace runs", nil
		}
	}
	type frame struct {
		node *TNode
		body []*TNode
	}
	stack := []*frame{{}}
	add := func(n *TNode) { f := stack[len(stack)-1]; f.body = append(f.body, n) }
	text := ""
	flush := func() {
		if text != "" {
			add(&TNode{Kind: "text", Text: text})
			text = ""
		}
	}
	i := 0
	for i < len(lex) {
		l := lex[i]
		if l != "{{" && l != "{{{" {
			if strings.HasPrefix(l, "}") && text == "" && i > 0 {
				return TUnspecified, "text starting with a closing brace right after a tag", nil
			}
			if strings.HasPrefix(l, "}") && i == 0 {
				// plain text
			}
			text += l
			i++
			continue
		}
		flush()
		triple := l == "{{{"
		want := "}}"
		if triple {
			want = "}}}"
		}
		// collect the tag's lexemes up to the next brace run
		j := i + 1
		for j < len(lex) && !isBrace(lex[j]) {
			j++
		}
		inner := lex[i+1 : j]
		if j == len(lex) {
			if len(inner) > 0 && inner[0] == "!" {
				return TMalformed, "unclosed tag", nil
			}
			return TMalformed, "unclosed tag", nil
		}
		closer := lex[j]
		if strings.HasPrefix(closer, "{") {
			if len(inner) > 0 && inner[0] == "!" {
				return TUnspecified, "opening braces inside a comment", nil
			}
			return TUnspecified, "opening braces inside a tag", nil
		}
		if len(inner) > 0 && inner[0] == "!" {
			if closer != want {
				return TMalformed, "mismatched brace counts", nil
			}
			add(&TNode{Kind: "comment", Text: " " + strings.Join(inner[1:], " ") + " ", Triple: triple})
			i = j + 1
			continue
		}
		// [op] [kw] name
		op, kw, name := "", "", ""
		k := 0
		if k < len(inner) && (inner[k] == "#" || inner[k] == "^" || inner[k] == "/") {
			op = inner[k]
			k++
		}
		rest := inner[k:]
		for _, r := range rest {
			if !isWordLex(r) {
				return TUnspecified, "operator in an odd place", nil
			}
		}
		switch len(rest) {
		case 0:
			return TUnspecified, "tag without a name", nil
		case 1:
			name = rest[0]
			if name == "if" || name == "unless" {
				if op == "/" {
					kw, name = name, ""
				} else {
					return TUnspecified, "section or variable named if/unless", nil
				}
			}
		case 2:
			if (rest[0] == "if" || rest[0] == "unless") && op == "#" && rest[1] != "if" && rest[1] != "unless" {
				kw, name = rest[0], rest[1]
			} else {
				return TUnspecified, "tag with two names", nil
			}
		default:
			return TUnspecified, "tag with several names", nil
		}
		if closer != want {
			return TMalformed, "mismatched brace counts", nil
		}
		switch op {
		case "":
			add(&TNode{Kind: "var", Text: name, Triple: triple})
		case "#", "^":
			n := &TNode{Kind: "section", Text: name, Triple: triple, Inv: op == "^" || kw == "unless", Open: op + kw, Close: "name"}
			stack = append(stack, &frame{node: n})
		case "/":
			if len(stack) == 1 {
				return TMalformed, "unopened section", nil
			}
			top := stack[len(stack)-1]
			if kw == "" && name != top.node.Text {
				if strings.EqualFold(name, top.node.Text) {
					return TUnspecified, "section end differing only in letter case", nil
				}
				return TMalformed, "mismatched section", nil
			}
			top.node.Body = top.body
			if kw != "" {
				top.node.Close = kw
			}
			stack = stack[:len(stack)-1]
			add(top.node)
		}
		i = j + 1
	}
	flush()
	if len(stack) > 1 {
		return TMalformed, "unclosed section", nil
	}
	return TWellFormed, "", stack[0].body
}

// JoinLexemes renders a lexeme sequence: inside a tag word-like lexemes are
// separated by one blank so they cannot merge.
func JoinLexemes(lex []string) string {
	var b strings.Builder
	inTag := false
	for i, l := range lex {
		if i > 0 && inTag && isWordLex(l) && isWordLex(lex[i-1]) {
			b.WriteString(" ")
		}
		b.WriteString(l)
		if l == "{{" || l == "{{{" {
			inTag = true
		} else if l == "}}" || l == "}}}" {
			inTag = false
		}
	}
	return b.String()
}
