//go:build verif

// Package fuzz holds native Go fuzz targets used as an *exploration aid*: coverage-guided
// workload generation for the "any Unicode string" quantifiers of C03, C04 and C14.  They are
// not registered checks (native fuzzing is not seed-deterministic); inputs they find are
// minimised, committed under /verif/corpus and from then on replayed deterministically by the
// registered checks.  Run e.g.:
//
//	cd /verif/harness && go test -tags verif ./fuzz -run '^$' -fuzz FuzzExpression -fuzztime 2000000x
package fuzz

import (
	"strings"
	"testing"
	"unicode/utf8"

	"github.com/pip-services3-gox/pip-services3-expressions-gox/calculator"
	ctok "github.com/pip-services3-gox/pip-services3-expressions-gox/calculator/tokenizers"
	"github.com/pip-services3-gox/pip-services3-expressions-gox/calculator/variables"
	"github.com/pip-services3-gox/pip-services3-expressions-gox/csv"
	rio "github.com/pip-services3-gox/pip-services3-expressions-gox/io"
	"github.com/pip-services3-gox/pip-services3-expressions-gox/mustache"
	mtok "github.com/pip-services3-gox/pip-services3-expressions-gox/mustache/tokenizers"
	"github.com/pip-services3-gox/pip-services3-expressions-gox/tokenizers"
	"github.com/pip-services3-gox/pip-services3-expressions-gox/tokenizers/generic"
	"github.com/pip-services3-gox/pip-services3-expressions-gox/variants"
)

func init() {
	// H1: a tokenizer main loop that does not advance is turned into a panic
	prev := map[rio.IScanner]int{}
	tokenizers.VerifLoopHook = func(scanner rio.IScanner, iteration int) {
		s, ok := scanner.(*rio.StringScanner)
		if !ok {
			return
		}
		pos, n := s.VerifPosition()
		if iteration > n+3 {
			panic("no-progress loop in tokenizer main loop")
		}
		if iteration == 2 {
			prev = map[rio.IScanner]int{scanner: pos}
		} else if iteration > 2 {
			if p, ok := prev[scanner]; ok && pos <= p {
				panic("no-progress loop in tokenizer main loop")
			}
			prev[scanner] = pos
		}
	}
}

var seeds = []string{"", "a + b * 2", "Min(a, 2) >= 1 AND NOT p", "a IS NOT NULL", "arr[1] NOT IN arr", "'it''s' + \"q\"", "/* c */ 1e5 << 2", "x{{a}}y{{#b}}in{{/b}}{{^c}}no{{/c}}{{{d}}}{{! n }}",
	"a,\"b \"\"q\"\"\",c\r\n1,2,3", "1 )", "{{#a}}x", "/*c*/😀", "'é'", "\"\"", "a-", "<> <=", "{{ 😀 }}"}

func addSeeds(f *testing.F) {
	for _, s := range seeds {
		f.Add(s)
	}
}

func boundaryVars(names []string, pick byte) *variables.VariableCollection {
	vals := []*variants.Variant{variants.EmptyVariant(), variants.VariantFromInteger(0), variants.VariantFromInteger(-1), variants.VariantFromLong(1 << 62), variants.VariantFromDouble(0.5),
		variants.VariantFromString(""), variants.VariantFromString("é"), variants.VariantFromBoolean(true), variants.VariantFromArray([]*variants.Variant{variants.VariantFromInteger(1)}), variants.VariantFromArray(nil)}
	vc := variables.NewVariableCollection()
	for i, n := range names {
		vc.Add(variables.NewVariable(n, vals[(int(pick)+i)%len(vals)].Clone()))
	}
	return vc
}

func FuzzExpression(f *testing.F) {
	addSeeds(f)
	f.Fuzz(func(t *testing.T, s string) {
		if !utf8.ValidString(s) || len(s) > 4096 {
			return
		}
		for _, ops := range []variants.IVariantOperations{variants.NewTypeUnsafeVariantOperations(), variants.NewTypeSafeVariantOperations()} {
			calc := calculator.NewExpressionCalculator()
			calc.SetVariantOperations(ops)
			if err := calc.SetExpression(s); err != nil {
				return
			}
			var names []string
			for _, v := range calc.DefaultVariables().GetAll() {
				names = append(names, v.Name())
			}
			for pick := byte(0); pick < 3; pick++ {
				var vc variables.IVariableCollection
				if pick > 0 {
					vc = boundaryVars(names, pick+byte(len(s)))
				}
				r, err := calc.EvaluateUsingVariables(vc)
				if (r == nil) == (err == nil) {
					t.Fatalf("Evaluate(%q) returned result=%v err=%v", s, r, err)
				}
			}
		}
	})
}

func FuzzTemplate(f *testing.F) {
	addSeeds(f)
	f.Fuzz(func(t *testing.T, s string) {
		if !utf8.ValidString(s) || len(s) > 4096 {
			return
		}
		tm := mustache.NewMustacheTemplate()
		if err := tm.SetTemplate(s); err != nil {
			return
		}
		tm.Evaluate()
		m := map[string]string{}
		for k := range tm.DefaultVariables() {
			m[strings.ToUpper(k)] = "v\"/"
		}
		tm.EvaluateWithVariables(m)
	})
}

func FuzzTokenize(f *testing.F) {
	for _, s := range seeds {
		f.Add(s, uint8(0))
		f.Add(s, uint8(127))
	}
	f.Fuzz(func(t *testing.T, s string, mask uint8) {
		if !utf8.ValidString(s) || len(s) > 4096 {
			return
		}
		toks := []tokenizers.ITokenizer{generic.NewGenericTokenizer(), ctok.NewExpressionTokenizer(), csv.NewCsvTokenizer(), mtok.NewMustacheTokenizer()}
		for _, tk := range toks {
			tk.SetSkipUnknown(mask&1 != 0)
			tk.SetSkipWhitespaces(mask&2 != 0)
			tk.SetSkipComments(mask&4 != 0)
			tk.SetSkipEof(mask&8 != 0)
			tk.SetMergeWhitespaces(mask&16 != 0)
			tk.SetUnifyNumbers(mask&32 != 0)
			tk.SetDecodeStrings(mask&64 != 0)
			out := tk.TokenizeBuffer(s)
			if mask&0x7f == 0 {
				var b strings.Builder
				for _, x := range out {
					b.WriteString(x.Value())
				}
				if b.String() != s {
					t.Fatalf("lossless: %q -> %q", s, b.String())
				}
			}
		}
	})
}
